//! C08 — static summaries of filters (callsite interest, max-level hint) are sound upper
//! bounds of the dynamic decision, for single filters, combinators and whole stacks.
//!
//! Case = a stack description (layer tree incl. global filter layers, reload / Option / Vec /
//! Box / Identity wrappers; filter expressions incl. env directives with span scopes, closures
//! with true-upper-bound hints, Option, Arc, reload, and/or/not). For every one of 60 static
//! `Metadata` (5 levels x 3 targets x {event, event+field, span alpha{x}, span beta}) and each of
//! 6 span contexts, the stack is asked *dynamically* (`Dispatch::enabled` + direct dispatch,
//! bypassing the macro caches) and the result is compared with what the summaries promise:
//!   never  => no layer receives it;
//!   always => skipping `enabled` (what the macro does) delivers to exactly the same layers;
//!   level > hint => no layer receives it.

use proptest::prelude::*;
use serde::{Deserialize, Serialize};
use tracing_core::field::Value;
use tracing_core::{span, Dispatch, Event};
use tracing_subscriber::registry::Registry;
use tracing_subscriber::subscribe::{CollectExt, Subscribe};
use vp_sub::universe::{METAS, N};
use vp_engine::runner::Rec;
use vp_engine::{kf, Isolation, Outcome, Property, Tier};
use vp_sub::*;

#[derive(Clone, Debug, Serialize, Deserialize, PartialEq)]
struct Case {
    tree: Node,
    globals: Vec<(GFilter, bool)>,
    /// replay-only: also judge the (metadata, stack) combinations of open known findings
    #[serde(default)]
    no_steer: bool,
}

struct Built {
    dispatch: Dispatch,
    logs: Vec<LeafLog>,
    /// `Collect::max_level_hint` of the assembled stack (rank; 0 = OFF)
    hint: Option<u8>,
}
fn build(case: &Case) -> Built {
    let mut logs = vec![];
    let tree = build_tree(&case.tree, &mut logs, &mut |log, _| RecLeaf::new(log).boxed());
    let mut combined: BS = tree;
    for (g, outer) in &case.globals {
        let gb = g.build();
        combined = if *outer { combined.and_then(gb).boxed() } else { gb.and_then(combined).boxed() };
    }
    let collector = Registry::default().with(combined);
    let hint = tracing_core::Collect::max_level_hint(&collector).map(|h| h.into_level().map(|l| vp_rec::rank(&l)).unwrap_or(0));
    Built { dispatch: Dispatch::new(collector), logs, hint }
}

fn rank_of(i: usize) -> u8 {
    vp_rec::rank(METAS[i].level())
}

/// dispatch `METAS[i]` directly; returns the set of leaves that were notified
fn deliver(b: &Built, i: usize, x: Option<u64>) -> Vec<usize> {
    let m = &METAS[i];
    let fs = m.fields();
    let cs_f = fs.field("cs").unwrap();
    let cs_v = i as u64;
    let xv = x.unwrap_or(1);
    for l in &b.logs {
        l.lock().unwrap().clear();
    }
    let has_x = fs.field("x").is_some();
    if m.is_span() {
        let id = if has_x {
            let xf = fs.field("x").unwrap();
            let vals = [(&cs_f, Some(&cs_v as &dyn Value)), (&xf, if x.is_some() { Some(&xv as &dyn Value) } else { None })];
            let vs = fs.value_set(&vals);
            b.dispatch.new_span(&span::Attributes::new(m, &vs))
        } else {
            let vals = [(&cs_f, Some(&cs_v as &dyn Value))];
            let vs = fs.value_set(&vals);
            b.dispatch.new_span(&span::Attributes::new(m, &vs))
        };
        let got: Vec<usize> = b.logs.iter().enumerate().filter(|(_, l)| l.lock().unwrap().iter().any(|c| c.kind == LKind::NewSpan)).map(|(k, _)| k).collect();
        b.dispatch.try_close(id);
        got
    } else {
        if has_x {
            let xf = fs.field("x").unwrap();
            let vals = [(&cs_f, Some(&cs_v as &dyn Value)), (&xf, Some(&xv as &dyn Value))];
            let vs = fs.value_set(&vals);
            b.dispatch.event(&Event::new(m, &vs));
        } else {
            let vals = [(&cs_f, Some(&cs_v as &dyn Value))];
            let vs = fs.value_set(&vals);
            b.dispatch.event(&Event::new(m, &vs));
        }
        b.logs.iter().enumerate().filter(|(_, l)| l.lock().unwrap().iter().any(|c| c.kind == LKind::Event)).map(|(k, _)| k).collect()
    }
}

#[derive(Clone, Copy, PartialEq, Debug)]
enum I {
    Never,
    Sometimes,
    Always,
}

/// creates and enters a context span the way the macros would (level vs hint, interest,
/// enabled), returns its id if it was created
fn ctx_span(b: &Built, i: usize, interests: &[I], hint: Option<u8>, x: Option<u64>, late_x: Option<u64>) -> Option<span::Id> {
    let m = &METAS[i];
    if let Some(h) = hint {
        if rank_of(i) > h {
            return None;
        }
    }
    match interests[i] {
        I::Never => return None,
        I::Sometimes => {
            if !b.dispatch.enabled(m) {
                return None;
            }
        }
        I::Always => {}
    }
    let fs = m.fields();
    let cs_f = fs.field("cs").unwrap();
    let cs_v = i as u64;
    let id = if let Some(xf) = fs.field("x") {
        let xv = x.unwrap_or(0);
        let vals = [(&cs_f, Some(&cs_v as &dyn Value)), (&xf, if x.is_some() { Some(&xv as &dyn Value) } else { None })];
        let vs = fs.value_set(&vals);
        b.dispatch.new_span(&span::Attributes::new(m, &vs))
    } else {
        let vals = [(&cs_f, Some(&cs_v as &dyn Value))];
        let vs = fs.value_set(&vals);
        b.dispatch.new_span(&span::Attributes::new(m, &vs))
    };
    b.dispatch.enter(&id);
    if let (Some(v), Some(xf)) = (late_x, fs.field("x")) {
        let vals = [(&xf, Some(&v as &dyn Value))];
        let vs = fs.value_set(&vals);
        b.dispatch.record(&id, &span::Record::new(&vs));
    }
    Some(id)
}

fn meta_index(level: u8, target: &str, name: &str) -> usize {
    (0..N).find(|i| rank_of(*i) == level && METAS[*i].target() == target && METAS[*i].name() == name).unwrap()
}

fn shape_tag(case: &Case) -> &'static str {
    fn vec_with_global(n: &Node) -> bool {
        match n {
            Node::Vec(v) => v.iter().any(|x| matches!(strip(x), Node::Global(_))) || v.iter().any(vec_with_global),
            Node::Filtered(a, _) | Node::Boxed(a) | Node::Reload(a) | Node::Identity(a) => vec_with_global(a),
            Node::Layered(a, b) => vec_with_global(a) || vec_with_global(b),
            Node::Opt(Some(a)) => vec_with_global(a),
            _ => false,
        }
    }
    fn strip(n: &Node) -> &Node {
        match n {
            Node::Boxed(a) | Node::Reload(a) | Node::Identity(a) => strip(a),
            Node::Opt(Some(a)) => strip(a),
            x => x,
        }
    }
    fn env_span(f: &FExpr) -> bool {
        match f {
            FExpr::EnvRaw(d) => d.contains('['),
            FExpr::And(a, b) | FExpr::Or(a, b) => env_span(a) || env_span(b),
            FExpr::Not(a) | FExpr::Reload(a) | FExpr::Arc(a) | FExpr::Opt(Some(a)) => env_span(a),
            _ => false,
        }
    }
    fn any_env_span(n: &Node) -> bool {
        match n {
            Node::Filtered(a, f) => env_span(f) || any_env_span(a),
            Node::Boxed(a) | Node::Reload(a) | Node::Identity(a) => any_env_span(a),
            Node::Layered(a, b) => any_env_span(a) || any_env_span(b),
            Node::Vec(v) => v.iter().any(any_env_span),
            Node::Opt(Some(a)) => any_env_span(a),
            _ => false,
        }
    }
    if vec_with_global(&case.tree) {
        "shape=vec-containing-global-filter"
    } else if any_env_span(&case.tree) {
        "shape=env-filter-with-span-directive"
    } else {
        "shape=other"
    }
}

/// raw env directives of every EnvRaw filter in the stack
fn env_raw_directives(case: &Case) -> Vec<String> {
    fn f(e: &FExpr, out: &mut Vec<String>) {
        match e {
            FExpr::EnvRaw(d) => out.extend(d.split(',').map(|x| x.to_string())),
            FExpr::And(a, b) | FExpr::Or(a, b) => {
                f(a, out);
                f(b, out)
            }
            FExpr::Not(a) | FExpr::Reload(a) | FExpr::Arc(a) | FExpr::Opt(Some(a)) => f(a, out),
            _ => {}
        }
    }
    fn n(x: &Node, out: &mut Vec<String>) {
        match x {
            Node::Filtered(a, e) => {
                f(e, out);
                n(a, out)
            }
            Node::Layered(a, b) => {
                n(a, out);
                n(b, out)
            }
            Node::Vec(v) => v.iter().for_each(|y| n(y, out)),
            Node::Opt(Some(a)) | Node::Boxed(a) | Node::Reload(a) | Node::Identity(a) => n(a, out),
            _ => {}
        }
    }
    let mut out = vec![];
    n(&case.tree, &mut out);
    out
}

/// Open finding F8: a span-scoped env directive `target[name{fields}]=level` whose level is
/// BELOW the level of a span it names: EnvFilter answers `always` for that span callsite
/// (register_callsite) although `enabled()` rejects it. Applies to this metadata?
fn f8_applies(dirs: &[String], i: usize) -> bool {
    let m = &METAS[i];
    if !m.is_span() {
        return false;
    }
    let names = ["off", "error", "warn", "info", "debug", "trace"];
    dirs.iter().any(|d| {
        let Some(lb) = d.find('[') else { return false };
        let Some(rb) = d.find(']') else { return false };
        let target = &d[..lb];
        let inner = &d[lb + 1..rb];
        let (name, fields) = match inner.find('{') {
            Some(p) => (&inner[..p], inner[p + 1..].trim_end_matches('}')),
            None => (inner, ""),
        };
        let level = d[rb + 1..].trim_start_matches('=');
        let lr = names.iter().position(|n| *n == level).unwrap_or(5) as u8;
        let fields_ok = fields.split(',').filter(|f| !f.is_empty()).all(|f| m.fields().field(f.split('=').next().unwrap()).is_some());
        m.target().starts_with(target) && (name.is_empty() || name == m.name()) && fields_ok && lr < rank_of(i)
    })
}

fn run_case(case: &Case) -> Outcome {
    let f8_open = kf::load("C08").iter().any(|f| f.id == "F8" && f.status == "open");
    let dirs = env_raw_directives(case);
    let mut excluded = 0u32;
    let b = build(case);
    let d = b.dispatch.clone();
    let _g = tracing_core::dispatch::set_default(&d);
    // summaries, taken once as the callsite registry would
    let interests: Vec<I> = (0..N)
        .map(|i| {
            let x = d.register_callsite(&METAS[i]);
            if x.is_never() {
                I::Never
            } else if x.is_always() {
                I::Always
            } else {
                I::Sometimes
            }
        })
        .collect();
    let hint: Option<u8> = b.hint;
    let tag = shape_tag(case);
    let mut classes: Vec<String> = vec![];
    let mut disagreement = false;
    let mut checked_static = 0u32;
    let contexts: Vec<Vec<(usize, Option<u64>, Option<u64>)>> = vec![
        vec![],
        vec![(meta_index(3, "a", "alpha"), Some(1), None)],
        vec![(meta_index(3, "a", "alpha"), Some(2), None)],
        vec![(meta_index(3, "a", "beta"), None, None)],
        vec![(meta_index(5, "c", "alpha"), None, Some(1))],
        vec![(meta_index(1, "a::b", "alpha"), Some(1), None), (meta_index(4, "c", "beta"), None, None)],
    ];
    for (ci, ctx) in contexts.iter().enumerate() {
        let mut entered: Vec<span::Id> = vec![];
        for (mi, x, late) in ctx {
            if let Some(id) = ctx_span(&b, *mi, &interests, hint, *x, *late) {
                entered.push(id);
            }
        }
        if !entered.is_empty() {
            classes.push("inside_span_context".into());
        }
        for i in 0..N {
            let m = &METAS[i];
            let lvl = rank_of(i);
            let f8 = f8_applies(&dirs, i);
            // F8 is a wrong `always` (a wrong `never` under a `not` combinator): for such a
            // (directive, span) pair the interest clauses are skipped, the max-level-hint clause
            // still applies
            let f8_skip = f8 && f8_open && !case.no_steer;
            if f8_skip {
                excluded += 1;
            }
            // A) ask dynamically, then dispatch
            let en = d.enabled(m);
            let ra = if en { deliver(&b, i, Some(1)) } else { vec![] };
            if !ra.is_empty() && ra.len() < b.logs.len() {
                disagreement = true;
            }
            let fail = |clause: &str, detail: String| {
                Outcome::fail(
                    if f8 && clause.starts_with("summary says") { "F8: EnvFilter answers always for a span named by a span-scoped directive whose level is below the span's level, although enabled() rejects it".to_string() } else { format!("{clause} {tag}") },
                    format!("metadata #{i} ({} {:?} level {} target {:?}) in context {ci}: {detail}; interest {:?} hint {:?}; stack = {}", if m.is_span() { "span" } else { "event" }, m.name(), lvl, m.target(), interests[i], hint, serde_json::to_string(case).unwrap_or_default()),
                )
            };
            match interests[i] {
                I::Always | I::Never if f8_skip => {}
                I::Never => {
                    checked_static += 1;
                    if !ra.is_empty() {
                        return fail("summary says never but a layer receives it when asked dynamically;", format!("enabled() = {en}, delivered to leaves {ra:?}"));
                    }
                }
                I::Always => {
                    checked_static += 1;
                    if !en {
                        return fail("summary says always but enabled() rejects;", "enabled() = false".into());
                    }
                    // B) the cached path: no `enabled` call before the dispatch
                    let rb = deliver(&b, i, Some(1));
                    if rb != ra {
                        return fail("summary says always but skipping enabled() changes who receives it;", format!("with enabled(): leaves {ra:?}, without: {rb:?}"));
                    }
                }
                I::Sometimes => {}
            }
            if let Some(h) = hint {
                if lvl > h && !ra.is_empty() {
                    return Outcome::fail(
                        format!("max-level hint is below a level a layer accepts; {tag}"),
                        format!("metadata #{i} ({} {:?} level {} target {:?}) in context {ci}: hint rank {h}, level rank {lvl}, delivered to leaves {ra:?}; interest {:?}; stack = {}", if m.is_span() { "span" } else { "event" }, m.name(), lvl, m.target(), interests[i], serde_json::to_string(case).unwrap_or_default()),
                    );
                }
            }
        }
        while let Some(id) = entered.pop() {
            d.exit(&id);
            d.try_close(id);
        }
    }
    let mut kinds = vec![];
    let mut has_comb = false;
    fn walk(n: &Node, kinds: &mut Vec<&'static str>, comb: &mut bool) {
        match n {
            Node::Filtered(a, f) => {
                f.leaf_kinds(kinds);
                *comb |= f.has_combinator();
                walk(a, kinds, comb)
            }
            Node::Layered(a, b) => {
                walk(a, kinds, comb);
                walk(b, kinds, comb)
            }
            Node::Vec(v) => v.iter().for_each(|x| walk(x, kinds, comb)),
            Node::Opt(Some(a)) | Node::Boxed(a) | Node::Reload(a) | Node::Identity(a) => walk(a, kinds, comb),
            Node::Global(_) => kinds.push("global"),
            _ => {}
        }
    }
    walk(&case.tree, &mut kinds, &mut has_comb);
    for _ in &case.globals {
        kinds.push("global");
    }
    kinds.sort();
    kinds.dedup();
    if has_comb {
        classes.push("has_combinator".into());
    }
    if hint.is_some() {
        classes.push("stack_has_hint".into());
    }
    if checked_static > 0 {
        classes.push("static_interest_checked".into());
    }
    classes.push(tag.into());
    classes.sort();
    classes.dedup();
    let mut o = Outcome::pass((has_comb || kinds.len() >= 2) && disagreement, classes);
    o.excluded_known = excluded;
    o
}

fn env_raw_strategy() -> BoxedStrategy<String> {
    let dirs = vec![
        "info", "a=debug", "c=trace", "a::b=warn", "[alpha]=debug", "[alpha]=warn", "[beta]=trace", "a[alpha]=trace", "[alpha{x}]=debug", "[alpha{x=1}]=trace", "[alpha{x=2}]=info", "c[alpha{x=1}]=trace",
        "[{x}]=debug", "off", "error", "a=off", "[beta]=error",
    ];
    proptest::collection::vec(proptest::sample::select(dirs), 1..4).prop_map(|v| v.join(",")).boxed()
}

fn c08_fexpr(depth: u32) -> BoxedStrategy<FExpr> {
    let leaf = prop_oneof![
        4 => fexpr_leaf(true),
        2 => (0u8..32, 0u8..8, 0u8..=5).prop_map(|(levels, targets, h)| {
            // true upper bound: at least the most verbose level in the mask
            let top = (1..=5u8).rev().find(|r| levels >> (r - 1) & 1 == 1).unwrap_or(0);
            FExpr::FnHint { levels, targets, hint: h.max(top) }
        }),
        1 => (0u8..32, 0u8..=5).prop_map(|(levels, h)| {
            let top = (1..=5u8).rev().find(|r| levels >> (r - 1) & 1 == 1).unwrap_or(0);
            FExpr::DynHint { levels, hint: h.max(top) }
        }),
        3 => env_raw_strategy().prop_map(FExpr::EnvRaw),
        1 => Just(FExpr::Opt(None)),
    ];
    leaf.prop_recursive(depth, 10, 2, |inner| {
        prop_oneof![
            3 => (inner.clone(), inner.clone()).prop_map(|(a, b)| FExpr::And(Box::new(a), Box::new(b))),
            3 => (inner.clone(), inner.clone()).prop_map(|(a, b)| FExpr::Or(Box::new(a), Box::new(b))),
            2 => inner.clone().prop_map(|a| FExpr::Not(Box::new(a))),
            1 => inner.clone().prop_map(|a| FExpr::Opt(Some(Box::new(a)))),
            1 => inner.clone().prop_map(|a| FExpr::Reload(Box::new(a))),
            1 => inner.prop_map(|a| FExpr::Arc(Box::new(a))),
        ]
    })
    .boxed()
}

fn c08_node() -> BoxedStrategy<Node> {
    let leaf = prop_oneof![
        2 => Just(Node::Leaf),
        6 => c08_fexpr(3).prop_map(|f| Node::Filtered(Box::new(Node::Leaf), f)),
        2 => gfilter_strategy().prop_map(Node::Global),
    ];
    leaf.prop_recursive(3, 10, 3, |inner| {
        prop_oneof![
            3 => (inner.clone(), c08_fexpr(2)).prop_map(|(n, f)| Node::Filtered(Box::new(n), f)),
            4 => (inner.clone(), inner.clone()).prop_map(|(a, b)| Node::Layered(Box::new(a), Box::new(b))),
            3 => proptest::collection::vec(inner.clone(), 0..4).prop_map(Node::Vec),
            2 => proptest::option::weighted(0.6, inner.clone()).prop_map(|o| Node::Opt(o.map(Box::new))),
            1 => inner.clone().prop_map(|n| Node::Boxed(Box::new(n))),
            1 => inner.clone().prop_map(|n| Node::Identity(Box::new(n))),
            1 => inner.prop_map(|n| if n.has_filtered() { n } else { Node::Reload(Box::new(n)) }),
        ]
    })
    .prop_filter("<=6 leaves", |n| n.leaves() <= 6)
    .boxed()
}

fn alphabet() -> Vec<FExpr> {
    vec![
        FExpr::Level(3),
        FExpr::Level(0),
        FExpr::Targets(vec![("a".into(), 4), ("a::b".into(), 1)]),
        FExpr::Env(vec![("".into(), 2), ("c".into(), 5)]),
        FExpr::StaticFn { levels: 0b10101, targets: 0b011 },
        FExpr::HasCurrent,
        FExpr::FnHint { levels: 0b00110, targets: 0b111, hint: 4 },
        FExpr::EnvRaw("[alpha{x=1}]=trace,a=info".into()),
        FExpr::EnvRaw("[alpha]=warn".into()),
        FExpr::Opt(None),
    ]
}
fn depth1() -> Vec<FExpr> {
    let a = alphabet();
    let mut v = a.clone();
    for x in &a {
        v.push(FExpr::Not(Box::new(x.clone())));
        for y in &a {
            v.push(FExpr::And(Box::new(x.clone()), Box::new(y.clone())));
            v.push(FExpr::Or(Box::new(x.clone()), Box::new(y.clone())));
        }
    }
    v
}

struct C08;
impl Property for C08 {
    type Case = Case;
    fn id(&self) -> &'static str {
        "C08"
    }
    fn isolation(&self) -> Isolation {
        Isolation::Thread
    }
    fn cases(&self, tier: Tier) -> u32 {
        tier.pick(40_000, 1_500_000)
    }
    fn strategy(&self, _tier: Tier) -> BoxedStrategy<Case> {
        (c08_node(), proptest::collection::vec((gfilter_strategy(), any::<bool>()), 0..3)).prop_map(|(tree, globals)| Case { tree, globals, no_steer: false }).boxed()
    }
    fn run(&self, case: &Case) -> Outcome {
        run_case(case)
    }
    fn rule(&self) -> String {
        "case = stack description (tree of <=6 recording leaves with Filtered/Layered/Vec/Option/Box/Identity/reload nodes and global filter layers anywhere; filter expressions to depth 3 over level, targets, static env tables, raw env directives incl. span-scoped ones, filter_fn / dynamic_filter_fn with and without true upper-bound hints, Option, Arc, reload, and/or/not). Each case is evaluated on all 60 static metadata x 6 span contexts (outside spans; inside alpha{x=1}; alpha{x=2}; beta; alpha with x recorded late; nested alpha>beta) = 360 dynamic queries. enumeration: every expression of depth <=1 (quick) / <=2 (thorough) over a 10-leaf alphabet as the single filter of one layer, and next to an unfiltered layer. non-trivial: expression with a combinator or a stack with >=2 kinds of filter, in which some query is received by one leaf and not by another; distinct by stack description".into()
    }
    fn assumptions(&self) -> Vec<String> {
        vec![
            "the dynamic decision is the implementation's own (`Dispatch::enabled` followed by direct dispatch on static Metadata, bypassing macro caches); the check is the consistency of the published summaries with it, not the filter semantics themselves (C07/C11)".into(),
            "closure hints are generated as true upper bounds, as the property requires".into(),
            "reload wrappers are placed only around subtrees without per-layer-filtered layers (documented limitation of the reload module)".into(),
        ]
    }
    fn exhaustive(&self, _tier: Tier) -> bool {
        true
    }
    fn enumerate(&self, tier: Tier, shard: u32, of: u32, rec: &mut Rec<'_, Self>) {
        let d1 = depth1();
        let mut k = 0u32;
        let mut go = |rec: &mut Rec<'_, Self>, f: FExpr| {
            k += 1;
            if k % of != shard {
                return;
            }
            rec.eval(&Case { tree: Node::Filtered(Box::new(Node::Leaf), f.clone()), globals: vec![], no_steer: false });
            rec.eval(&Case { tree: Node::Layered(Box::new(Node::Leaf), Box::new(Node::Filtered(Box::new(Node::Leaf), f))), globals: vec![], no_steer: false });
        };
        for f in &d1 {
            go(rec, f.clone());
        }
        if tier == Tier::Thorough {
            for x in &d1 {
                go(rec, FExpr::Not(Box::new(x.clone())));
                for y in &d1 {
                    if rec.violations() > 0 {
                        return;
                    }
                    go(rec, FExpr::And(Box::new(x.clone()), Box::new(y.clone())));
                    go(rec, FExpr::Or(Box::new(x.clone()), Box::new(y.clone())));
                }
            }
        }
    }
}

fn main() {
    let _ = kf::verif_dir();
    vp_engine::main(C08)
}
