//! C03 — Span handles drive their collector through a well-formed, balanced protocol.
//!
//! Programs over the public Span handle API (macros with contextual/root/explicit parents,
//! clone, drop, enter/entered/exit with out-of-order guard drops, in_scope, record,
//! follows_from, Span::current, or_current, Instrumented futures of both `tracing` and
//! `tracing-futures` polled 0..n times and dropped at any point) on 3 stepped threads under a
//! default collector that is the span's own, a different recorder, or none.
//!
//! Oracle: (1) a per-operation reference model of the exact call sequence every recording
//! collector must see (kind, span id, thread); (2) whole-program invariants recomputed from
//! the full log: one new_span per id, try_close count = 1 + clone_span count, per-thread
//! enter/exit balance, nothing after the final try_close, every call on the creating
//! collector, no calls at all for disabled spans.

use proptest::prelude::*;
use serde::{Deserialize, Serialize};
use std::future::Future;
use std::pin::Pin;
use std::sync::{Arc, Mutex};
use std::task::{Context, Poll, RawWaker, RawWakerVTable, Waker};
use tracing::span::{Entered, EnteredSpan};
use tracing::{Level, Span};
use tracing_core::dispatch::{self, DefaultGuard};
use tracing_core::Dispatch;
use vp_engine::{pick, Isolation, Outcome, Property, Tier};
use vp_rec::{Call, FilterSpec, Kind, RecCollector, Shared, Stepper};

const NT: usize = 3;
const NSLOT: usize = 5;
const NFUT: usize = 3;

#[derive(Clone, Copy, Debug, Serialize, Deserialize, PartialEq)]
enum Parent {
    Contextual,
    Root,
    Explicit(u8),
}
#[derive(Clone, Copy, Debug, Serialize, Deserialize, PartialEq)]
enum Sel {
    A,
    B,
    NoDefault,
}
#[derive(Clone, Copy, Debug, Serialize, Deserialize, PartialEq)]
enum Body {
    Nothing,
    Event,
    /// the closure panics; the caller catches it
    Panic,
    NewChild { to: u8, cs: u8 },
    CurrentTo { to: u8 },
}
#[derive(Clone, Debug, Serialize, Deserialize, PartialEq)]
enum Op {
    New { t: u8, slot: u8, cs: u8, parent: Parent },
    NewNone { t: u8, slot: u8 },
    Clone { t: u8, from: u8, to: u8 },
    Drop { t: u8, slot: u8 },
    Enter { t: u8, slot: u8 },
    Entered { t: u8, slot: u8 },
    DropGuard { t: u8, g: u16 },
    ExitGuard { t: u8, g: u16, to: u8 },
    InScope { t: u8, slot: u8, body: Body },
    Record { t: u8, slot: u8, declared: bool, v: i64 },
    FollowsFrom { t: u8, slot: u8, other: u8 },
    /// `span.follows_from(&entered_guard)`: an owned guard of the thread used as the cause
    FollowsFromGuard { t: u8, slot: u8, g: u16 },
    Current { t: u8, to: u8 },
    OrCurrent { t: u8, slot: u8 },
    Event { t: u8 },
    Instrument { t: u8, slot: u8, fut: u8, lib: bool, ready_after: u8, emits: bool, #[serde(default)] panics: bool },
    InCurrentSpan { t: u8, fut: u8, lib: bool, ready_after: u8, emits: bool },
    Poll { t: u8, fut: u8 },
    DropFuture { t: u8, fut: u8 },
    /// `instrumented.into_inner()`: the wrapper gives up its span handle, the wrapped future is
    /// dropped afterwards, outside the span
    IntoInner { t: u8, fut: u8 },
    /// `to.clone_from(&from)` on two occupied slots
    CloneFrom { t: u8, from: u8, to: u8 },
    /// both collectors publish rank `h` (3 INFO .. 5 TRACE) as their max-level hint from now on and
    /// the interest cache is rebuilt: new spans above it are disabled, existing handles (also
    /// entered ones) keep driving their collector
    SetMax { t: u8, h: u8 },
    SwitchDefault { t: u8, sel: Sel },
}
#[derive(Clone, Debug, Serialize, Deserialize)]
struct Case {
    ops: Vec<Op>,
    /// the collectors hand out a fresh span id from every `clone_span`
    #[serde(default)]
    fresh_ids: bool,
    /// how the collectors are handed to `Dispatch::new`: 0 by value, 1 in an `Arc`, 2 as
    /// `Box<dyn Collect>` (the forwarding impls must pass every notification on), 3 as
    /// `Dispatch::from_static` of a leaked collector
    #[serde(default)]
    wrap: u8,
}

// ---- real-side state -----------------------------------------------------------------

enum Guard {
    /// `span.enter()`: the borrow is turned into 'static and the Arc keeps the handle alive for
    /// as long as the guard lives (what the borrow checker would enforce)
    Borrowed { g: Entered<'static>, _keep: Arc<Span> },
    Owned(EnteredSpan),
}
#[derive(Default)]
struct TState {
    guards: Vec<Guard>,
    default: Option<DefaultGuard>,
}
impl Drop for TState {
    fn drop(&mut self) {
        while let Some(g) = self.guards.pop() {
            drop(g);
        }
        self.default.take();
    }
}

struct TestFut {
    remaining: u8,
    emits: bool,
    panics: bool,
}
impl Future for TestFut {
    type Output = ();
    fn poll(mut self: Pin<&mut Self>, _: &mut Context<'_>) -> Poll<()> {
        if self.emits {
            tracing::info!(target: "c03", "poll");
        }
        if self.panics {
            panic!("scripted panic inside the instrumented future's poll");
        }
        if self.remaining == 0 {
            Poll::Ready(())
        } else {
            self.remaining -= 1;
            Poll::Pending
        }
    }
}
impl Drop for TestFut {
    fn drop(&mut self) {
        if self.emits {
            tracing::info!(target: "c03", "dropfut");
        }
    }
}
/// the instrumented future of either library, kept with its concrete type so that it can also be
/// taken apart again with `into_inner`
enum BoxFut {
    T(Pin<Box<tracing::instrument::Instrumented<TestFut>>>),
    F(Pin<Box<tracing_futures::Instrumented<TestFut>>>),
}
impl BoxFut {
    fn as_mut(&mut self) -> Pin<&mut (dyn Future<Output = ()> + Send)> {
        match self {
            BoxFut::T(b) => b.as_mut(),
            BoxFut::F(b) => b.as_mut(),
        }
    }
    fn into_inner(self) -> TestFut {
        match self {
            BoxFut::T(b) => Pin::into_inner(b).into_inner(),
            BoxFut::F(b) => Pin::into_inner(b).into_inner(),
        }
    }
}

fn noop_waker() -> Waker {
    fn clone(_: *const ()) -> RawWaker {
        RawWaker::new(std::ptr::null(), &VT)
    }
    fn noop(_: *const ()) {}
    static VT: RawWakerVTable = RawWakerVTable::new(clone, noop, noop, noop);
    unsafe { Waker::from_raw(RawWaker::new(std::ptr::null(), &VT)) }
}

macro_rules! mk {
    ($lvl:ident, $name:literal, $kind:expr, $p:expr) => {
        match $kind {
            0 => tracing::span!(Level::$lvl, $name, x = tracing::field::Empty, y = 1),
            1 => tracing::span!(parent: None, Level::$lvl, $name, x = tracing::field::Empty, y = 1),
            _ => tracing::span!(parent: $p, Level::$lvl, $name, x = tracing::field::Empty, y = 1),
        }
    };
}
/// cs: 0 INFO, 1 DEBUG, 2 TRACE (rejected by the collectors' filter), 3 ERROR
fn make_span(cs: u8, kind: u8, parent: Option<&Span>) -> Span {
    let none = Span::none();
    let p = parent.unwrap_or(&none);
    match cs % 4 {
        0 => mk!(INFO, "s0", kind, p),
        1 => mk!(DEBUG, "s1", kind, p),
        2 => mk!(TRACE, "s2", kind, p),
        _ => mk!(ERROR, "s3", kind, p),
    }
}
fn cs_enabled(cs: u8) -> bool {
    cs % 4 != 2
}
fn cs_name(cs: u8) -> &'static str {
    ["s0", "s1", "s2", "s3"][(cs % 4) as usize]
}

type Slots = Arc<Mutex<Vec<Option<Arc<Span>>>>>;
type Futs = Arc<Mutex<Vec<Option<BoxFut>>>>;

// ---- model ---------------------------------------------------------------------------

#[derive(Clone, Copy, Debug, PartialEq)]
enum H {
    /// enabled on recording collector `col`
    On { col: usize, id: u64 },
    /// Span::none() / rejected by the filter: no collector calls at all
    Disabled,
    /// created while the thread had no default: lives on the no-op collector
    NoDispatch,
}
#[derive(Clone, Debug, PartialEq)]
struct Exp {
    kind: Kind,
    id: u64,
    id2: u64,
    thread: u8,
    name: String,
    fields: Vec<(String, String)>,
}
fn exp(kind: Kind, id: u64, thread: usize) -> Exp {
    Exp { kind, id, id2: 0, thread: thread as u8, name: String::new(), fields: vec![] }
}
#[derive(Clone, Debug)]
enum MGuard {
    Borrowed { h: H, slot: usize },
    Owned { h: H },
}
struct MFut {
    h: H,
    remaining: u8,
    emits: bool,
    done: bool,
    panics: bool,
}
struct Model {
    slots: Vec<Option<H>>,
    borrows: Vec<usize>,
    guards: Vec<Vec<MGuard>>,
    futs: Vec<Option<MFut>>,
    default: Vec<Sel>,
    next: [u64; 2],
    fresh: bool,
    stacks: [Vec<Vec<u64>>; 2],
    /// expected calls per collector for the current op
    want: [Vec<Exp>; 2],
    /// the process-wide maximum level (rank) the collectors' hints add up to
    gmax: u8,
}
impl Model {
    fn col_of(sel: Sel) -> Option<usize> {
        match sel {
            Sel::A => Some(0),
            Sel::B => Some(1),
            Sel::NoDefault => None,
        }
    }
    fn enter(&mut self, h: H, t: usize) {
        if let H::On { col, id } = h {
            self.want[col].push(exp(Kind::Enter, id, t));
            self.stacks[col][t].push(id);
        }
    }
    fn exit(&mut self, h: H, t: usize) {
        if let H::On { col, id } = h {
            self.want[col].push(exp(Kind::Exit, id, t));
            if let Some(p) = self.stacks[col][t].iter().rposition(|x| *x == id) {
                self.stacks[col][t].remove(p);
            }
        }
    }
    fn close(&mut self, h: H, t: usize) {
        if let H::On { col, id } = h {
            self.want[col].push(exp(Kind::TryClose, id, t));
        }
    }
    /// a new handle to the same span: clone_span(id) is expected; in fresh-id mode the new
    /// handle gets the next id of that collector
    fn clone_handle(&mut self, h: H, t: usize) -> H {
        match h {
            H::On { col, id } => {
                let new = if self.fresh {
                    let n = ((col as u64 + 1) << 32) | self.next[col];
                    self.next[col] += 1;
                    n
                } else {
                    id
                };
                let mut e = exp(Kind::CloneSpan, id, t);
                e.id2 = new;
                self.want[col].push(e);
                H::On { col, id: new }
            }
            other => other,
        }
    }
    fn event(&mut self, t: usize, msg: &str) {
        if let Some(col) = Self::col_of(self.default[t]) {
            let mut e = exp(Kind::Event, 0, t);
            e.id2 = 1;
            e.fields = vec![("message".into(), msg.into())];
            self.want[col].push(e);
        }
    }
    fn current(&mut self, t: usize) -> H {
        match Self::col_of(self.default[t]) {
            Some(col) => match self.stacks[col][t].last().copied() {
                Some(id) => self.clone_handle(H::On { col, id }, t),
                None => H::Disabled,
            },
            None => H::Disabled,
        }
    }
    fn new_span(&mut self, t: usize, cs: u8, parent: Parent) -> H {
        // (the macro looks at the global maximum level first: above it the span is disabled)
        if !cs_enabled(cs) || [3u8, 4, 5, 1][(cs % 4) as usize] > self.gmax {
            return H::Disabled;
        }
        match Self::col_of(self.default[t]) {
            None => H::NoDispatch,
            Some(col) => {
                let id = ((col as u64 + 1) << 32) | self.next[col];
                self.next[col] += 1;
                let mut e = exp(Kind::NewSpan, id, t);
                e.name = cs_name(cs).into();
                e.fields = vec![("y".into(), "1".into())];
                e.id2 = match parent {
                    Parent::Contextual => 1,
                    Parent::Root => 0,
                    Parent::Explicit(s) => match self.slots[s as usize % NSLOT] {
                        Some(H::On { id, .. }) => id,
                        // a span on the no-op collector has that collector's constant id
                        Some(H::NoDispatch) => 0xDEAD,
                        _ => 0,
                    },
                };
                self.want[col].push(e);
                H::On { col, id }
            }
        }
    }
}

fn describe(c: &Call) -> String {
    format!("{:?}(id={:#x},id2={:#x},T{},{:?})", c.kind, c.id, c.id2, c.thread, c.fields)
}

fn run_case(case: &Case) -> Outcome {
    let filt = FilterSpec { max_level: 4, targets: None, dynamic: false, dyn_static_never: false, hint: None };
    let (ca, sa) = RecCollector::new(0, filt.clone(), false);
    let (cb, sb) = RecCollector::new(1, filt, false);
    let (da, db) = match case.wrap % 4 {
        0 => (Dispatch::new(ca), Dispatch::new(cb)),
        // collectors with static lifetime (leaked on purpose), never installed as global default
        3 => (Dispatch::from_static(Box::leak(Box::new(ca))), Dispatch::from_static(Box::leak(Box::new(cb)))),
        1 => (Dispatch::new(Arc::new(ca)), Dispatch::new(Arc::new(cb))),
        _ => {
            let (ba, bb): (Box<dyn tracing_core::Collect + Send + Sync>, Box<dyn tracing_core::Collect + Send + Sync>) = (Box::new(ca), Box::new(cb));
            (Dispatch::new(ba), Dispatch::new(bb))
        }
    };
    sa.take();
    sb.take();
    sa.fresh_clone_ids.store(case.fresh_ids, std::sync::atomic::Ordering::SeqCst);
    sb.fresh_clone_ids.store(case.fresh_ids, std::sync::atomic::Ordering::SeqCst);
    let shared: [Arc<Shared>; 2] = [sa, sb];
    let disp = [da, db];

    let slots: Slots = Arc::new(Mutex::new((0..NSLOT).map(|_| None).collect()));
    let futs: Futs = Arc::new(Mutex::new((0..NFUT).map(|_| None).collect()));
    let mut st: Stepper<TState> = Stepper::new(NT);
    let mut m = Model {
        slots: vec![None; NSLOT],
        borrows: vec![0; NSLOT],
        guards: vec![vec![]; NT],
        futs: (0..NFUT).map(|_| None).collect(),
        default: vec![Sel::NoDefault; NT],
        next: [1, 1],
        fresh: case.fresh_ids,
        stacks: [vec![vec![]; NT], vec![vec![]; NT]],
        want: [vec![], vec![]],
        gmax: 5,
    };
    let mut full: [Vec<Call>; 2] = [vec![], vec![]];
    let mut classes: Vec<String> = vec![];
    let (mut n_clone, mut ooo_guard, mut fut_mid, mut foreign_op, mut cross_thread) = (0, false, false, false, false);
    let mut creator_thread: std::collections::HashMap<u64, usize> = Default::default();

    // ops plus a deterministic teardown so that every handle is dropped through the same
    // checked path
    let mut ops: Vec<Op> = case.ops.clone();
    let user_len = ops.len();

    let mut i = 0;
    let mut teardown_built = false;
    loop {
        if i == ops.len() {
            if teardown_built {
                break;
            }
            teardown_built = true;
            for t in 0..NT {
                for _ in 0..m.guards[t].len() {
                    ops.push(Op::DropGuard { t: t as u8, g: u16::MAX });
                }
            }
            for f in 0..NFUT {
                ops.push(Op::DropFuture { t: 0, fut: f as u8 });
            }
            for s in 0..NSLOT {
                ops.push(Op::Drop { t: (s % NT) as u8, slot: s as u8 });
            }
            if i == ops.len() {
                break;
            }
        }
        // ops that need an occupied slot are steered to one (k-th occupied), so that generated
        // programs act on live handles most of the time; teardown ops are used as written
        let op = {
            let occ: Vec<u8> = (0..NSLOT).filter(|s| m.slots[*s].is_some()).map(|s| s as u8).collect();
            let focc: Vec<u8> = (0..NFUT).filter(|f| m.futs[*f].is_some()).map(|f| f as u8).collect();
            let o = |s: u8| if occ.is_empty() || i >= user_len { s } else { occ[s as usize % occ.len()] };
            let fo = |f: u8| if focc.is_empty() || i >= user_len { f } else { focc[f as usize % focc.len()] };
            match ops[i].clone() {
                Op::Clone { t, from, to } => Op::Clone { t, from: o(from), to },
                Op::Drop { t, slot } => Op::Drop { t, slot: o(slot) },
                Op::Enter { t, slot } => Op::Enter { t, slot: o(slot) },
                Op::Entered { t, slot } => Op::Entered { t, slot: o(slot) },
                Op::InScope { t, slot, body } => Op::InScope { t, slot: o(slot), body },
                Op::Record { t, slot, declared, v } => Op::Record { t, slot: o(slot), declared, v },
                Op::FollowsFrom { t, slot, other } => Op::FollowsFrom { t, slot: o(slot), other: o(other) },
                Op::FollowsFromGuard { t, slot, g } => Op::FollowsFromGuard { t, slot: o(slot), g },
                Op::OrCurrent { t, slot } => Op::OrCurrent { t, slot: o(slot) },
                Op::Instrument { t, slot, fut, lib, ready_after, emits, panics } => Op::Instrument { t, slot: o(slot), fut, lib, ready_after, emits, panics },
                Op::Poll { t, fut } => Op::Poll { t, fut: fo(fut) },
                Op::DropFuture { t, fut } => Op::DropFuture { t, fut: fo(fut) },
                Op::IntoInner { t, fut } => Op::IntoInner { t, fut: fo(fut) },
                Op::CloneFrom { t, from, to } => Op::CloneFrom { t, from: o(from), to: o(to) },
                other => other,
            }
        };
        m.want = [vec![], vec![]];
        let mut skipped = false;
        macro_rules! fail {
            ($sig:expr, $($arg:tt)*) => {{
                let o = Outcome::fail($sig, format!("op #{}{} {:?}: {}", i, if i >= user_len { " (teardown)" } else { "" }, op, format!($($arg)*)));
                std::mem::forget(st);
                return o;
            }};
        }
        // a slot that is borrowed by a live `enter()` guard cannot be moved out of / replaced
        let free = |m: &Model, s: usize| m.borrows[s] == 0;
        // helper: take the old occupant of `to` out (expected close) before storing
        macro_rules! vacate {
            ($t:expr, $s:expr) => {{
                if let Some(h) = m.slots[$s].take() {
                    m.close(h, $t);
                    let sl = slots.clone();
                    let s = $s;
                    if let Err(e) = st.run($t, move |_| {
                        let old = sl.lock().unwrap()[s].take();
                        drop(old);
                    }) {
                        fail!("panic: Span drop", "{e}");
                    }
                }
            }};
        }
        let r: Result<(), String> = match op.clone() {
            Op::New { t, slot, cs, parent } => {
                let (t, s) = (t as usize % NT, slot as usize % NSLOT);
                if !free(&m, s) {
                    skipped = true;
                    Ok(())
                } else {
                    vacate!(t, s);
                    let h = m.new_span(t, cs, parent);
                    m.slots[s] = Some(h);
                    if let H::On { id, .. } = h {
                        creator_thread.insert(id, t);
                    }
                    if m.default[t] == Sel::NoDefault {
                        classes.push("new_without_default".into());
                    }
                    let sl = slots.clone();
                    st.run(t, move |_| {
                        let (kind, par) = match parent {
                            Parent::Contextual => (0, None),
                            Parent::Root => (1, None),
                            Parent::Explicit(p) => (2, sl.lock().unwrap()[p as usize % NSLOT].clone()),
                        };
                        let sp = make_span(cs, kind, par.as_deref());
                        sl.lock().unwrap()[s] = Some(Arc::new(sp));
                    })
                }
            }
            Op::NewNone { t, slot } => {
                let (t, s) = (t as usize % NT, slot as usize % NSLOT);
                if !free(&m, s) {
                    skipped = true;
                    Ok(())
                } else {
                    vacate!(t, s);
                    m.slots[s] = Some(H::Disabled);
                    let sl = slots.clone();
                    st.run(t, move |_| sl.lock().unwrap()[s] = Some(Arc::new(Span::none())))
                }
            }
            Op::Clone { t, from, to } => {
                let (t, f, s) = (t as usize % NT, from as usize % NSLOT, to as usize % NSLOT);
                if m.slots[f].is_none() || f == s || !free(&m, s) {
                    skipped = true;
                    Ok(())
                } else {
                    vacate!(t, s);
                    let h = m.slots[f].unwrap();
                    if let H::On { id, .. } = h {
                        n_clone += 1;
                        if creator_thread.get(&id) != Some(&t) {
                            cross_thread = true;
                        }
                    }
                    let nh = m.clone_handle(h, t);
                    if let H::On { id, .. } = nh {
                        creator_thread.entry(id).or_insert(t);
                    }
                    m.slots[s] = Some(nh);
                    let sl = slots.clone();
                    st.run(t, move |_| {
                        let c = Span::clone(sl.lock().unwrap()[f].as_ref().unwrap());
                        sl.lock().unwrap()[s] = Some(Arc::new(c));
                    })
                }
            }
            Op::Drop { t, slot } => {
                let (t, s) = (t as usize % NT, slot as usize % NSLOT);
                if m.slots[s].is_none() || !free(&m, s) {
                    skipped = true;
                    Ok(())
                } else {
                    if let Some(H::On { col, id }) = m.slots[s] {
                        if Model::col_of(m.default[t]) != Some(col) {
                            foreign_op = true;
                        }
                        if creator_thread.get(&id) != Some(&t) {
                            cross_thread = true;
                        }
                    }
                    vacate!(t, s);
                    Ok(())
                }
            }
            Op::Enter { t, slot } => {
                let (t, s) = (t as usize % NT, slot as usize % NSLOT);
                match m.slots[s] {
                    None => {
                        skipped = true;
                        Ok(())
                    }
                    Some(h) => {
                        m.enter(h, t);
                        if let H::On { col, id } = h {
                            if Model::col_of(m.default[t]) != Some(col) {
                                foreign_op = true;
                            }
                            if creator_thread.get(&id) != Some(&t) {
                                cross_thread = true;
                            }
                        }
                        m.borrows[s] += 1;
                        m.guards[t].push(MGuard::Borrowed { h, slot: s });
                        let sl = slots.clone();
                        st.run(t, move |ts| {
                            let keep = sl.lock().unwrap()[s].clone().unwrap();
                            let g: Entered<'_> = keep.enter();
                            // SAFETY: `keep` (an Arc to the same Span) is stored next to the guard
                            // and dropped after it, so the borrow never dangles.
                            let g: Entered<'static> = unsafe { std::mem::transmute(g) };
                            ts.guards.push(Guard::Borrowed { g, _keep: keep });
                        })
                    }
                }
            }
            Op::Entered { t, slot } => {
                let (t, s) = (t as usize % NT, slot as usize % NSLOT);
                if m.slots[s].is_none() || !free(&m, s) {
                    skipped = true;
                    Ok(())
                } else {
                    let h = m.slots[s].take().unwrap();
                    m.enter(h, t);
                    m.guards[t].push(MGuard::Owned { h });
                    let sl = slots.clone();
                    st.run(t, move |ts| {
                        let sp = sl.lock().unwrap()[s].take().unwrap();
                        let sp = Arc::try_unwrap(sp).ok().expect("unborrowed slot is unique");
                        ts.guards.push(Guard::Owned(sp.entered()));
                    })
                }
            }
            Op::DropGuard { t, g } | Op::ExitGuard { t, g, .. } => {
                let t = t as usize % NT;
                let n = m.guards[t].len();
                if n == 0 {
                    skipped = true;
                    Ok(())
                } else {
                    let gi = if g == u16::MAX { n - 1 } else { pick(g, n) };
                    if gi != n - 1 {
                        ooo_guard = true;
                    }
                    let to = if let Op::ExitGuard { to, .. } = op { Some(to as usize % NSLOT) } else { None };
                    // ExitGuard on an owned guard puts the span back into a slot
                    let owned = matches!(m.guards[t][gi], MGuard::Owned { .. });
                    let to = if owned { to.filter(|s| free(&m, *s)) } else { None };
                    if let Some(s) = to {
                        vacate!(t, s);
                    }
                    match m.guards[t].remove(gi) {
                        MGuard::Borrowed { h, slot } => {
                            m.exit(h, t);
                            m.borrows[slot] -= 1;
                        }
                        MGuard::Owned { h } => {
                            m.exit(h, t);
                            match to {
                                Some(s) => m.slots[s] = Some(h),
                                None => m.close(h, t),
                            }
                        }
                    }
                    let sl = slots.clone();
                    st.run(t, move |ts| {
                        let g = ts.guards.remove(gi);
                        match (g, to) {
                            (Guard::Owned(es), Some(s)) => {
                                let sp = es.exit();
                                sl.lock().unwrap()[s] = Some(Arc::new(sp));
                            }
                            (g, _) => drop(g),
                        }
                    })
                }
            }
            Op::InScope { t, slot, body } => {
                let (t, s) = (t as usize % NT, slot as usize % NSLOT);
                let body = match body {
                    Body::NewChild { to, .. } | Body::CurrentTo { to } if to as usize % NSLOT == s || !free(&m, to as usize % NSLOT) => Body::Nothing,
                    b => b,
                };
                match m.slots[s] {
                    None => {
                        skipped = true;
                        Ok(())
                    }
                    Some(h) => {
                        if let Body::NewChild { to, .. } | Body::CurrentTo { to } = body {
                            vacate!(t, to as usize % NSLOT);
                        }
                        m.enter(h, t);
                        match body {
                            Body::Nothing | Body::Panic => {}
                            Body::Event => m.event(t, "inscope"),
                            Body::NewChild { to, cs } => {
                                let c = m.new_span(t, cs, Parent::Contextual);
                                if let H::On { id, .. } = c {
                                    creator_thread.insert(id, t);
                                }
                                m.slots[to as usize % NSLOT] = Some(c);
                            }
                            Body::CurrentTo { to } => {
                                let c = m.current(t);
                                if matches!(c, H::On { .. }) {
                                    n_clone += 1;
                                }
                                m.slots[to as usize % NSLOT] = Some(c);
                            }
                        }
                        m.exit(h, t);
                        let sl = slots.clone();
                        st.run(t, move |_| {
                            let sp = sl.lock().unwrap()[s].clone().unwrap();
                            if body == Body::Panic {
                                let r = std::panic::catch_unwind(std::panic::AssertUnwindSafe(|| sp.in_scope(|| panic!("scripted panic inside in_scope"))));
                                assert!(r.is_err());
                                return;
                            }
                            sp.in_scope(|| match body {
                                Body::Nothing | Body::Panic => {}
                                Body::Event => tracing::info!(target: "c03", "inscope"),
                                Body::NewChild { to, cs } => {
                                    let c = make_span(cs, 0, None);
                                    sl.lock().unwrap()[to as usize % NSLOT] = Some(Arc::new(c));
                                }
                                Body::CurrentTo { to } => {
                                    let c = Span::current();
                                    sl.lock().unwrap()[to as usize % NSLOT] = Some(Arc::new(c));
                                }
                            })
                        })
                    }
                }
            }
            Op::Record { t, slot, declared, v } => {
                let (t, s) = (t as usize % NT, slot as usize % NSLOT);
                match m.slots[s] {
                    None => {
                        skipped = true;
                        Ok(())
                    }
                    Some(h) => {
                        if let (H::On { col, id }, true) = (h, declared) {
                            let mut e = exp(Kind::Record, id, t);
                            e.fields = vec![("x".into(), v.to_string())];
                            m.want[col].push(e);
                            if Model::col_of(m.default[t]) != Some(col) {
                                foreign_op = true;
                            }
                        }
                        let sl = slots.clone();
                        st.run(t, move |_| {
                            let sp = sl.lock().unwrap()[s].clone().unwrap();
                            if declared {
                                sp.record("x", v);
                            } else {
                                sp.record("not_declared", v);
                            }
                        })
                    }
                }
            }
            Op::FollowsFromGuard { t, slot, g } => {
                let (t, s) = (t as usize % NT, slot as usize % NSLOT);
                let owned: Vec<usize> = (0..m.guards[t].len()).filter(|k| matches!(m.guards[t][*k], MGuard::Owned { .. })).collect();
                match (m.slots[s], owned.is_empty()) {
                    (Some(h), false) => {
                        let gi = owned[vp_engine::pick(g, owned.len())];
                        let gh = match m.guards[t][gi] {
                            MGuard::Owned { h } => h,
                            MGuard::Borrowed { h, .. } => h,
                        };
                        if let H::On { col, id } = h {
                            let oid = match gh {
                                H::On { id, .. } => Some(id),
                                H::NoDispatch => Some(0xDEAD),
                                H::Disabled => None,
                            };
                            if let Some(oid) = oid {
                                let mut e = exp(Kind::FollowsFrom, id, t);
                                e.id2 = oid;
                                m.want[col].push(e);
                            }
                        }
                        let sl = slots.clone();
                        st.run(t, move |ts| {
                            let a = sl.lock().unwrap()[s].clone().unwrap();
                            if let Guard::Owned(es) = &ts.guards[gi] {
                                a.follows_from(es);
                            }
                        })
                    }
                    _ => {
                        skipped = true;
                        Ok(())
                    }
                }
            }
            Op::FollowsFrom { t, slot, other } => {
                let (t, s, o) = (t as usize % NT, slot as usize % NSLOT, other as usize % NSLOT);
                match (m.slots[s], m.slots[o]) {
                    (Some(h), Some(oh)) => {
                        if let H::On { col, id } = h {
                            let oid = match oh {
                                H::On { id, .. } => Some(id),
                                H::NoDispatch => Some(0xDEAD),
                                H::Disabled => None,
                            };
                            if let Some(oid) = oid {
                                let mut e = exp(Kind::FollowsFrom, id, t);
                                e.id2 = oid;
                                m.want[col].push(e);
                            }
                        }
                        let sl = slots.clone();
                        st.run(t, move |_| {
                            let (a, b) = {
                                let g = sl.lock().unwrap();
                                (g[s].clone().unwrap(), g[o].clone().unwrap())
                            };
                            a.follows_from(&*b);
                        })
                    }
                    _ => {
                        skipped = true;
                        Ok(())
                    }
                }
            }
            Op::Current { t, to } => {
                let (t, s) = (t as usize % NT, to as usize % NSLOT);
                if !free(&m, s) {
                    skipped = true;
                    Ok(())
                } else {
                    vacate!(t, s);
                    let h = m.current(t);
                    if matches!(h, H::On { .. }) {
                        n_clone += 1;
                        classes.push("current_captured".into());
                    }
                    m.slots[s] = Some(h);
                    let sl = slots.clone();
                    st.run(t, move |_| {
                        let c = Span::current();
                        sl.lock().unwrap()[s] = Some(Arc::new(c));
                    })
                }
            }
            Op::OrCurrent { t, slot } => {
                let (t, s) = (t as usize % NT, slot as usize % NSLOT);
                if m.slots[s].is_none() || !free(&m, s) {
                    skipped = true;
                    Ok(())
                } else {
                    let h = m.slots[s].unwrap();
                    if h == H::Disabled {
                        let c = m.current(t);
                        if matches!(c, H::On { .. }) {
                            n_clone += 1;
                        }
                        m.slots[s] = Some(c);
                    }
                    let sl = slots.clone();
                    st.run(t, move |_| {
                        let sp = sl.lock().unwrap()[s].take().unwrap();
                        let sp = Arc::try_unwrap(sp).ok().expect("unique");
                        let sp = sp.or_current();
                        sl.lock().unwrap()[s] = Some(Arc::new(sp));
                    })
                }
            }
            Op::Event { t } => {
                let t = t as usize % NT;
                m.event(t, "plain");
                st.run(t, |_| tracing::info!(target: "c03", "plain"))
            }
            Op::Instrument { t, slot, fut, lib, ready_after, emits, panics } => {
                let (t, s, f) = (t as usize % NT, slot as usize % NSLOT, fut as usize % NFUT);
                if m.slots[s].is_none() || !free(&m, s) || m.futs[f].is_some() {
                    skipped = true;
                    Ok(())
                } else {
                    let h = m.slots[s].take().unwrap();
                    m.futs[f] = Some(MFut { h, remaining: ready_after % 4, emits, done: false, panics });
                    let (sl, fl) = (slots.clone(), futs.clone());
                    st.run(t, move |_| {
                        let sp = sl.lock().unwrap()[s].take().unwrap();
                        let sp = Arc::try_unwrap(sp).ok().expect("unique");
                        let inner = TestFut { remaining: ready_after % 4, emits, panics };
                        let b: BoxFut = if lib {
                            BoxFut::F(Box::pin(tracing_futures::Instrument::instrument(inner, sp)))
                        } else {
                            BoxFut::T(Box::pin(tracing::Instrument::instrument(inner, sp)))
                        };
                        fl.lock().unwrap()[f] = Some(b);
                    })
                }
            }
            Op::InCurrentSpan { t, fut, lib, ready_after, emits } => {
                let (t, f) = (t as usize % NT, fut as usize % NFUT);
                if m.futs[f].is_some() {
                    skipped = true;
                    Ok(())
                } else {
                    let h = m.current(t);
                    if matches!(h, H::On { .. }) {
                        n_clone += 1;
                    }
                    m.futs[f] = Some(MFut { h, remaining: ready_after % 4, emits, done: false, panics: false });
                    let fl = futs.clone();
                    st.run(t, move |_| {
                        let inner = TestFut { remaining: ready_after % 4, emits, panics: false };
                        let b: BoxFut = if lib {
                            BoxFut::F(Box::pin(tracing_futures::Instrument::in_current_span(inner)))
                        } else {
                            BoxFut::T(Box::pin(tracing::Instrument::in_current_span(inner)))
                        };
                        fl.lock().unwrap()[f] = Some(b);
                    })
                }
            }
            Op::Poll { t, fut } => {
                let (t, f) = (t as usize % NT, fut as usize % NFUT);
                let pollable = m.futs[f].as_ref().map(|x| !x.done).unwrap_or(false);
                if !pollable {
                    skipped = true;
                    Ok(())
                } else {
                    let (h, emits, rem, panics) = {
                        let x = m.futs[f].as_ref().unwrap();
                        (x.h, x.emits, x.remaining, x.panics)
                    };
                    if panics {
                        classes.push("poll_panicked".into());
                    }
                    m.enter(h, t);
                    if emits {
                        m.event(t, "poll");
                    }
                    m.exit(h, t);
                    {
                        let x = m.futs[f].as_mut().unwrap();
                        if rem == 0 || panics {
                            x.done = true;
                        } else {
                            x.remaining -= 1;
                        }
                    }
                    if let H::On { col, .. } = h {
                        if Model::col_of(m.default[t]) != Some(col) {
                            foreign_op = true;
                        }
                    }
                    let fl = futs.clone();
                    let want_ready = rem == 0 && !panics;
                    let r = st.run(t, move |_| {
                        let mut fu = fl.lock().unwrap()[f].take().unwrap();
                        let w = noop_waker();
                        let mut cx = Context::from_waker(&w);
                        let res = std::panic::catch_unwind(std::panic::AssertUnwindSafe(|| fu.as_mut().poll(&mut cx).is_ready()));
                        fl.lock().unwrap()[f] = Some(fu);
                        match res {
                            Ok(ready) => ready,
                            Err(_) => {
                                assert!(panics, "poll panicked unexpectedly");
                                false
                            }
                        }
                    });
                    match r {
                        Ok(ready) if ready != want_ready => fail!("instrumented future readiness", "poll returned ready={ready}, plain future would return ready={want_ready}"),
                        Ok(_) => Ok(()),
                        Err(e) => Err(e),
                    }
                }
            }
            Op::DropFuture { t, fut } => {
                let (t, f) = (t as usize % NT, fut as usize % NFUT);
                match m.futs[f].take() {
                    None => {
                        skipped = true;
                        Ok(())
                    }
                    Some(x) => {
                        if !x.done && i < user_len {
                            fut_mid = true;
                        }
                        m.enter(x.h, t);
                        if x.emits {
                            m.event(t, "dropfut");
                        }
                        m.exit(x.h, t);
                        m.close(x.h, t);
                        let fl = futs.clone();
                        st.run(t, move |_| {
                            let fu = fl.lock().unwrap()[f].take();
                            drop(fu);
                        })
                    }
                }
            }
            Op::IntoInner { t, fut } => {
                let (t, f) = (t as usize % NT, fut as usize % NFUT);
                match m.futs[f].take() {
                    None => {
                        skipped = true;
                        Ok(())
                    }
                    Some(x) => {
                        if !x.done && i < user_len {
                            fut_mid = true;
                        }
                        classes.push("instrumented_into_inner".into());
                        m.close(x.h, t);
                        if x.emits {
                            m.event(t, "dropfut");
                        }
                        let fl = futs.clone();
                        st.run(t, move |_| {
                            let fu = fl.lock().unwrap()[f].take().unwrap();
                            let inner = fu.into_inner();
                            drop(inner);
                        })
                    }
                }
            }
            Op::CloneFrom { t, from, to } => {
                let (t, f, s) = (t as usize % NT, from as usize % NSLOT, to as usize % NSLOT);
                if m.slots[f].is_none() || m.slots[s].is_none() || f == s || !free(&m, s) {
                    skipped = true;
                    Ok(())
                } else {
                    // `*to = from.clone()`: the clone first, then the old value of `to` is dropped
                    let h = m.slots[f].unwrap();
                    let old = m.slots[s].take().unwrap();
                    if let H::On { .. } = h {
                        n_clone += 1;
                    }
                    let nh = m.clone_handle(h, t);
                    if let H::On { id, .. } = nh {
                        creator_thread.entry(id).or_insert(t);
                    }
                    m.close(old, t);
                    m.slots[s] = Some(nh);
                    if let (H::On { col: a, .. }, H::On { col: b, .. }) = (h, old) {
                        classes.push(if a != b { "clone_from_across_collectors".into() } else { "clone_from_same_collector".into() });
                    }
                    let sl = slots.clone();
                    st.run(t, move |_| {
                        let src = sl.lock().unwrap()[f].clone().unwrap();
                        let mut g = sl.lock().unwrap();
                        Arc::get_mut(g[s].as_mut().unwrap()).expect("unique").clone_from(&src);
                    })
                }
            }
            Op::SetMax { t, h } => {
                let (t, h) = (t as usize % NT, 3 + h % 3);
                m.gmax = h;
                for sh in &shared {
                    sh.spec.lock().unwrap().hint = Some(h);
                }
                classes.push(if m.guards.iter().flatten().count() > 0 { "max_level_changed_while_a_span_is_entered".into() } else { "max_level_changed".into() });
                st.run(t, move |_| tracing_core::callsite::rebuild_interest_cache())
            }
            Op::SwitchDefault { t, sel } => {
                let t = t as usize % NT;
                m.default[t] = sel;
                let d = match sel {
                    Sel::A => Some(disp[0].clone()),
                    Sel::B => Some(disp[1].clone()),
                    Sel::NoDefault => None,
                };
                st.run(t, move |ts| {
                    ts.default.take();
                    if let Some(d) = d {
                        ts.default = Some(dispatch::set_default(&d));
                    }
                })
            }
        };
        if let Err(e) = r {
            fail!(format!("panic: {}", vp_engine::panic_signature(&e)), "{e}");
        }
        // compare what each recording collector saw with the model, exactly
        for col in 0..2 {
            let got = shared[col].take();
            let want = &m.want[col];
            let same = got.len() == want.len()
                && got.iter().zip(want.iter()).all(|(g, w)| {
                    g.kind == w.kind
                        && g.thread == w.thread
                        && (w.kind == Kind::Event || g.id == w.id)
                        && (matches!(w.kind, Kind::NewSpan | Kind::FollowsFrom | Kind::CloneSpan) == false || g.id2 == w.id2)
                        && (w.kind != Kind::NewSpan || (g.name == w.name && g.fields == w.fields))
                        && (w.kind != Kind::Record || g.fields == w.fields)
                        && (w.kind != Kind::Event || (g.id2 == w.id2 && g.fields == w.fields))
                });
            if !same {
                let g: Vec<String> = got.iter().map(describe).collect();
                let w: Vec<String> = want.iter().map(|w| format!("{:?}(id={:#x},id2={:#x},T{},{:?})", w.kind, w.id, w.id2, w.thread, w.fields)).collect();
                // classify
                let count = |v: &[Kind], k: Kind| v.iter().filter(|x| **x == k).count();
                let gk: Vec<Kind> = got.iter().map(|c| c.kind.clone()).collect();
                let wk: Vec<Kind> = want.iter().map(|c| c.kind.clone()).collect();
                let mut sig = "collector saw a different call sequence".to_string();
                for k in [Kind::NewSpan, Kind::CloneSpan, Kind::TryClose, Kind::Enter, Kind::Exit, Kind::Record, Kind::FollowsFrom, Kind::Event] {
                    let (a, b) = (count(&gk, k.clone()), count(&wk, k.clone()));
                    if a != b {
                        sig = format!("{} {:?} call(s)", if a < b { "missing" } else { "extra" }, k);
                        break;
                    }
                }
                if gk == wk {
                    sig = "right calls, wrong id/thread/parent/fields".into();
                }
                fail!(sig, "collector {} saw {:?}, expected {:?}", ["A", "B"][col], g, w);
            }
            full[col].extend(got);
        }
        if skipped {
            classes.push("op_skipped_not_applicable".into());
        }
        i += 1;
    }

    // whole-program invariants, recomputed from the complete logs. An id is "issued" by the
    // new_span that returned it or (fresh-id collectors) by the clone_span that returned it.
    for col in 0..2 {
        let log = &full[col];
        let mut ids: Vec<u64> = log.iter().filter(|c| c.kind != Kind::Event).flat_map(|c| if c.kind == Kind::CloneSpan { vec![c.id, c.id2] } else { vec![c.id] }).collect();
        ids.sort();
        ids.dedup();
        for id in ids {
            if id == 0xDEAD || id == 0 {
                continue;
            }
            if RecCollector::owner_of(id) != col as u32 {
                return Outcome::fail("call delivered to a collector that did not create the span", format!("collector {col} saw a call for id {id:#x}"));
            }
            // calls that are *about* this id (a clone_span is about its argument)
            let calls: Vec<&Call> = log.iter().filter(|c| c.kind != Kind::Event && c.id == id).collect();
            let n = |k: Kind| calls.iter().filter(|c| c.kind == k).count();
            let issued = n(Kind::NewSpan) + log.iter().filter(|c| c.kind == Kind::CloneSpan && c.id2 == id && c.id2 != c.id).count();
            if issued != 1 {
                return Outcome::fail("new_span count", format!("id {id:#x}: issued {issued} times"));
            }
            let same_id_clones = calls.iter().filter(|c| c.kind == Kind::CloneSpan && c.id2 == c.id).count();
            if n(Kind::TryClose) != 1 + same_id_clones {
                return Outcome::fail("close count != 1 + clone count", format!("id {id:#x}: {} try_close, {} clone_span returning the same id", n(Kind::TryClose), same_id_clones));
            }
            if calls.last().map(|c| c.kind.clone()) != Some(Kind::TryClose) {
                return Outcome::fail("call after the last close", format!("id {id:#x}: last call is {}", describe(calls.last().unwrap())));
            }
            for t in 0..NT as u8 {
                let mut depth = 0i32;
                for c in calls.iter().filter(|c| c.thread == t) {
                    match c.kind {
                        Kind::Enter => depth += 1,
                        Kind::Exit => {
                            depth -= 1;
                            if depth < 0 {
                                return Outcome::fail("exit without enter", format!("id {id:#x} thread T{t}"));
                            }
                        }
                        _ => {}
                    }
                }
                if depth != 0 {
                    return Outcome::fail("enter without exit", format!("id {id:#x} thread T{t}: depth {depth} at the end"));
                }
            }
        }
    }
    if n_clone > 0 {
        classes.push("has_clone".into());
    }
    if case.fresh_ids {
        classes.push("collector_issues_fresh_id_per_clone".into());
    }
    for (b, n) in [(ooo_guard, "out_of_order_guard_drop"), (fut_mid, "future_dropped_before_completion"), (foreign_op, "op_under_foreign_or_no_default"), (cross_thread, "cross_thread_use")] {
        if b {
            classes.push(n.into());
        }
    }
    classes.sort();
    classes.dedup();
    let nontrivial = n_clone > 0 && (ooo_guard || fut_mid || foreign_op || cross_thread);
    let r = std::panic::catch_unwind(std::panic::AssertUnwindSafe(move || {
        drop(st);
        drop(disp);
    }));
    if r.is_err() {
        return Outcome::fail("panic: teardown", "dropping threads/collectors panicked");
    }
    Outcome::pass(nontrivial, classes)
}

struct C03;
impl Property for C03 {
    type Case = Case;
    fn id(&self) -> &'static str {
        "C03"
    }
    fn isolation(&self) -> Isolation {
        Isolation::Child
    }
    fn cases(&self, tier: Tier) -> u32 {
        tier.pick(40_000, 400_000)
    }
    fn strategy(&self, tier: Tier) -> BoxedStrategy<Case> {
        let t = || 0u8..NT as u8;
        let s = || 0u8..NSLOT as u8;
        let f = || 0u8..NFUT as u8;
        let parent = prop_oneof![3 => Just(Parent::Contextual), 1 => Just(Parent::Root), 2 => s().prop_map(Parent::Explicit)];
        let sel = prop_oneof![3 => Just(Sel::A), 2 => Just(Sel::B), 1 => Just(Sel::NoDefault)];
        let body = prop_oneof![Just(Body::Nothing), Just(Body::Event), Just(Body::Panic), (s(), 0u8..4).prop_map(|(to, cs)| Body::NewChild { to, cs }), s().prop_map(|to| Body::CurrentTo { to })];
        let cs = || prop_oneof![3 => Just(0u8), 2 => Just(1u8), 1 => Just(2u8), 2 => Just(3u8)];
        let op = prop_oneof![
            8 => (t(), s(), cs(), parent).prop_map(|(t, slot, cs, parent)| Op::New { t, slot, cs, parent }),
            1 => (t(), s()).prop_map(|(t, slot)| Op::NewNone { t, slot }),
            5 => (t(), s(), s()).prop_map(|(t, from, to)| Op::Clone { t, from, to }),
            4 => (t(), s()).prop_map(|(t, slot)| Op::Drop { t, slot }),
            5 => (t(), s()).prop_map(|(t, slot)| Op::Enter { t, slot }),
            3 => (t(), s()).prop_map(|(t, slot)| Op::Entered { t, slot }),
            5 => (t(), any::<u16>()).prop_map(|(t, g)| Op::DropGuard { t, g }),
            2 => (t(), any::<u16>(), s()).prop_map(|(t, g, to)| Op::ExitGuard { t, g, to }),
            3 => (t(), s(), body).prop_map(|(t, slot, body)| Op::InScope { t, slot, body }),
            2 => (t(), s(), any::<bool>(), any::<i64>()).prop_map(|(t, slot, declared, v)| Op::Record { t, slot, declared, v }),
            2 => (t(), s(), s()).prop_map(|(t, slot, other)| Op::FollowsFrom { t, slot, other }),
            3 => (t(), s()).prop_map(|(t, to)| Op::Current { t, to }),
            1 => (t(), s()).prop_map(|(t, slot)| Op::OrCurrent { t, slot }),
            2 => t().prop_map(|t| Op::Event { t }),
            1 => (t(), s(), any::<u16>()).prop_map(|(t, slot, g)| Op::FollowsFromGuard { t, slot, g }),
            3 => (t(), s(), f(), any::<bool>(), 0u8..4, any::<bool>(), proptest::bool::weighted(0.2)).prop_map(|(t, slot, fut, lib, ready_after, emits, panics)| Op::Instrument { t, slot, fut, lib, ready_after, emits, panics }),
            1 => (t(), f(), any::<bool>(), 0u8..4, any::<bool>()).prop_map(|(t, fut, lib, ready_after, emits)| Op::InCurrentSpan { t, fut, lib, ready_after, emits }),
            4 => (t(), f()).prop_map(|(t, fut)| Op::Poll { t, fut }),
            2 => (t(), f()).prop_map(|(t, fut)| Op::DropFuture { t, fut }),
            1 => (t(), f()).prop_map(|(t, fut)| Op::IntoInner { t, fut }),
            2 => (t(), s(), s()).prop_map(|(t, from, to)| Op::CloneFrom { t, from, to }),
            2 => (t(), 0u8..3).prop_map(|(t, h)| Op::SetMax { t, h }),
            3 => (t(), sel.clone()).prop_map(|(t, sel)| Op::SwitchDefault { t, sel }),
        ];
        let max = tier.pick(40usize, 60usize);
        (proptest::collection::vec(sel, NT), proptest::collection::vec(op, 1..max), any::<bool>(), prop_oneof![3 => Just(0u8), 1 => Just(1u8), 1 => Just(2u8), 1 => Just(3u8)])
            .prop_map(|(sels, ops, fresh_ids, wrap)| {
                let mut all: Vec<Op> = sels.into_iter().enumerate().map(|(t, sel)| Op::SwitchDefault { t: t as u8, sel }).collect();
                all.extend(ops);
                Case { ops: all, fresh_ids, wrap }
            })
            .boxed()
    }
    fn run(&self, case: &Case) -> Outcome {
        run_case(case)
    }
    fn rule(&self) -> String {
        "programs of <=40 (thorough <=60) Span-API ops over 5 span slots, 3 future slots and 3 stepped OS threads whose default collector is recorder A, recorder B or none (the recorders are handed to Dispatch::new by value, in an Arc, or as Box<dyn Collect>); every handle left over is dropped by a deterministic teardown that goes through the same checked path. non-trivial: at least one clone (incl. Span::current captures) and (an out-of-order guard drop, or a future dropped before completion, or an operation on a span under a foreign/absent default, or a handle used on a thread other than its creator); distinct by op list".into()
    }
    fn assumptions(&self) -> Vec<String> {
        vec![
            "a slot borrowed by a live `enter()` guard is not moved/replaced (the borrow checker forbids it); such generated ops are skipped and counted".into(),
            "the recording collectors define 'current span' as the most recently entered, not yet exited span of the thread (needed only to give Span::current a value)".into(),
            "futures are polled with a no-op waker on the stepped threads; no executor is involved".into(),
        ]
    }
}

fn main() {
    vp_engine::main(C03)
}
