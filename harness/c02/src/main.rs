//! C02 — an emission goes to the thread's innermost live scoped default, else to the global
//! default (set by any thread at any earlier time), else nowhere; scopes are LIFO, restored on
//! panic, thread-local; set_global_default succeeds exactly once.
//!
//! One history per fresh child process (the global default is one-shot). Logical threads are
//! real OS threads driven one operation at a time, so the cross-thread order is part of the
//! case. Oracle: per-thread stack + Option<global> model.

use proptest::prelude::*;
use serde::{Deserialize, Serialize};
use std::sync::Arc;
use tracing_core::dispatch::{self, DefaultGuard};
use tracing_core::Dispatch;
use vp_engine::{pick, Isolation, Outcome, Property, Tier};
use vp_rec::{FilterSpec, Kind, RecCollector, Shared, Stepper};

const NT: usize = 4;
/// collectors 0..=2: `Dispatch::new(recorder)`; 3: `Dispatch::from_static(recorder)`; 4: `Dispatch::none()`
const NC: usize = 5;

#[derive(Clone, Debug, Serialize, Deserialize, PartialEq)]
enum Op {
    /// set_default(c) on thread t, guard kept on t's stack
    /// (`via`: through `tracing::collect::set_default(collector)` - the collector by value, a
    /// fresh Dispatch made by the call - instead of `dispatch::set_default(&dispatch)`; likewise
    /// for PanicScope / SetGlobal)
    Open {
        t: u8,
        c: u8,
        #[serde(default)]
        via: bool,
        /// (with `via`) the collector given away emits an event from its Drop impl, which runs
        /// when this scope closes
        #[serde(default)]
        drop_emits: bool,
    },
    /// drop t's innermost guard (ignored when t has none)
    Close { t: u8 },
    /// with_default(c, || { emit; panic }) on t, caught
    PanicScope { t: u8, c: u8, #[serde(default)] via: bool },
    /// set_global_default(c) attempted from t
    SetGlobal { t: u8, c: u8, #[serde(default)] via: bool },
    /// emit through macro callsite `cs` (0..=2 events, 3 span) on t
    Emit { t: u8, cs: u8 },
    /// like Emit, but the receiving collector panics inside the callback; the thread catches it
    EmitPanic { t: u8, cs: u8 },
    /// get_default / Dispatch::default() identity on t
    Query { t: u8 },
    /// thread t ends (its scopes unwind LIFO); a later op on t starts a fresh thread
    EndThread { t: u8 },
    /// thread t gets a thread-local value whose destructor emits an event when the thread ends
    /// (`scope`: the destructor also opens and closes a scope of collector `c` around it)
    ArmExitEmit {
        t: u8,
        #[serde(default)]
        scope: Option<u8>,
    },
    /// a future that emits, wrapped with `with_collector(c)` (c given) or, created on thread t,
    /// with `with_current_collector()`; polled once on thread `on`: the poll is a scope of its own
    PollWith { t: u8, c: Option<u8>, on: u8 },
}

#[derive(Clone, Debug, Serialize, Deserialize)]
struct Case {
    ops: Vec<Op>,
}

#[derive(Default)]
struct TState {
    guards: Vec<DefaultGuard>,
}
impl Drop for TState {
    fn drop(&mut self) {
        while let Some(g) = self.guards.pop() {
            drop(g);
        }
    }
}

fn emit(cs: u8) {
    match cs {
        0 => tracing::info!(target: "c02", "e0"),
        1 => tracing::error!(target: "c02::x", "e1"),
        2 => tracing::trace!(target: "c02", "e2"),
        _ => {
            let s = tracing::info_span!(target: "c02", "s3");
            drop(s);
        }
    }
}

/// a collector (forwarding to recorder `.0`) that emits one event when it is dropped, i.e. when
/// the scope that holds its only Dispatch closes: the thread is then back in the enclosing scope
struct DropEmitter(Arc<RecCollector>);
impl Drop for DropEmitter {
    fn drop(&mut self) {
        tracing::warn!(target: "c02", "collector dropped");
    }
}
impl tracing_core::Collect for DropEmitter {
    fn on_register_dispatch(&self, d: &Dispatch) {
        self.0.on_register_dispatch(d)
    }
    fn register_callsite(&self, m: &'static tracing_core::Metadata<'static>) -> tracing_core::Interest {
        self.0.register_callsite(m)
    }
    fn enabled(&self, m: &tracing_core::Metadata<'_>) -> bool {
        self.0.enabled(m)
    }
    fn max_level_hint(&self) -> Option<tracing_core::LevelFilter> {
        self.0.max_level_hint()
    }
    fn new_span(&self, a: &tracing_core::span::Attributes<'_>) -> tracing_core::span::Id {
        self.0.new_span(a)
    }
    fn record(&self, s: &tracing_core::span::Id, v: &tracing_core::span::Record<'_>) {
        self.0.record(s, v)
    }
    fn record_follows_from(&self, s: &tracing_core::span::Id, f: &tracing_core::span::Id) {
        self.0.record_follows_from(s, f)
    }
    fn event_enabled(&self, e: &tracing_core::Event<'_>) -> bool {
        self.0.event_enabled(e)
    }
    fn event(&self, e: &tracing_core::Event<'_>) {
        self.0.event(e)
    }
    fn enter(&self, s: &tracing_core::span::Id) {
        self.0.enter(s)
    }
    fn exit(&self, s: &tracing_core::span::Id) {
        self.0.exit(s)
    }
    fn clone_span(&self, s: &tracing_core::span::Id) -> tracing_core::span::Id {
        self.0.clone_span(s)
    }
    fn try_close(&self, s: tracing_core::span::Id) -> bool {
        self.0.try_close(s)
    }
    fn current_span(&self) -> tracing_core::span::Current {
        self.0.current_span()
    }
    unsafe fn downcast_raw(&self, id: std::any::TypeId) -> Option<std::ptr::NonNull<()>> {
        if id == std::any::TypeId::of::<Self>() {
            Some(std::ptr::NonNull::from(self).cast())
        } else {
            self.0.downcast_raw(id)
        }
    }
}

/// emits when the thread that owns it ends
struct ExitEmitter(Option<Dispatch>);
impl Drop for ExitEmitter {
    fn drop(&mut self) {
        match self.0.take() {
            Some(d) => {
                let g = dispatch::set_default(&d);
                emit(0);
                drop(g);
            }
            None => emit(0),
        }
    }
}
fn poll_once<F: std::future::Future>(f: F) {
    use std::task::{Context, RawWaker, RawWakerVTable, Waker};
    fn clone(_: *const ()) -> RawWaker {
        RawWaker::new(std::ptr::null(), &VT)
    }
    fn noop(_: *const ()) {}
    static VT: RawWakerVTable = RawWakerVTable::new(clone, noop, noop, noop);
    let w = unsafe { Waker::from_raw(RawWaker::new(std::ptr::null(), &VT)) };
    let mut cx = Context::from_waker(&w);
    let mut f = Box::pin(f);
    let _ = f.as_mut().poll(&mut cx);
}
thread_local! {
    static AT_EXIT: std::cell::RefCell<Option<ExitEmitter>> = const { std::cell::RefCell::new(None) };
}

/// the future is only moved between the stepped threads, never used by two at once
struct SendFut(std::pin::Pin<Box<tracing::instrument::WithDispatch<std::pin::Pin<Box<dyn std::future::Future<Output = ()>>>>>>);
unsafe impl Send for SendFut {}

fn current_id() -> Option<u32> {
    dispatch::get_default(|d| d.downcast_ref::<RecCollector>().map(|r| r.0.id))
}

struct World {
    st: Stepper<TState>,
    disp: Vec<Option<Dispatch>>,
    /// the recorders 0..=2 themselves (shared between every Dispatch made for them)
    arcs: Vec<Option<Arc<RecCollector>>>,
    shared: Vec<Option<Arc<Shared>>>,
    stacks: Vec<Vec<u8>>,
    /// parallel to `stacks`: closing this scope drops a collector that emits
    emitters: Vec<Vec<bool>>,
    global: Option<u8>,
}

impl World {
    fn dispatch(&mut self, t: usize, c: usize) -> Result<Dispatch, String> {
        if self.disp[c].is_none() {
            if c == 4 {
                self.disp[c] = Some(Dispatch::none());
                return Ok(self.disp[c].clone().unwrap());
            }
            let (d, s, arc) = self.st.run(t, move |_| {
                let (col, s) = RecCollector::new(c as u32, FilterSpec::accept_all(), false);
                if c == 3 {
                    let leaked: &'static RecCollector = Box::leak(Box::new(col));
                    (Dispatch::from_static(leaked), s, None)
                } else {
                    let arc = Arc::new(col);
                    (Dispatch::new(arc.clone()), s, Some(arc))
                }
            })?;
            s.take(); // creation-time calls (on_register_dispatch) are not emissions
            self.disp[c] = Some(d);
            self.arcs[c] = arc;
            self.shared[c] = Some(s);
        }
        Ok(self.disp[c].clone().unwrap())
    }
    /// the collector the model selects (4 = the no-op dispatcher)
    fn selected(&self, t: usize) -> Option<u8> {
        self.stacks[t].last().copied().or(self.global)
    }
    /// the recording collector that must see the emission, if any
    fn receiver(&self, t: usize) -> Option<u8> {
        self.selected(t).filter(|c| *c != 4)
    }
    /// drain logs: (collector, deliveries, foreign-thread calls)
    fn drain(&self) -> Vec<(u8, Vec<vp_rec::Call>)> {
        let mut out = vec![];
        for (i, s) in self.shared.iter().enumerate() {
            if let Some(s) = s {
                let calls = s.take();
                if !calls.is_empty() {
                    out.push((i as u8, calls));
                }
            }
        }
        out
    }
}

fn run_case(case: &Case) -> Outcome {
    let mut w = World {
        st: Stepper::new(NT),
        disp: vec![None; NC],
        arcs: vec![None; NC],
        shared: vec![None; NC],
        stacks: vec![vec![]; NT],
        emitters: vec![vec![]; NT],
        global: None,
    };
    let mut classes: Vec<String> = vec![];
    // for the non-triviality rule
    let mut active_before_global = [false; NT];
    let mut nontrivial = false;
    let mut global_attempts = 0;
    let mut armed = [false; NT];
    let mut scoped_exit = [false; NT];

    macro_rules! fail {
        ($i:expr, $sig:expr, $($arg:tt)*) => {{
            let o = Outcome::fail($sig, format!("op #{} {:?}: {}", $i, case.ops[$i], format!($($arg)*)));
            std::mem::forget(w); // do not unwind scopes of a broken world
            return o;
        }};
    }

    for (i, op) in case.ops.iter().enumerate() {
        match *op {
            Op::Open { t, c, via, drop_emits } => {
                let (t, c) = (t as usize % NT, c as usize % NC);
                let d = match w.dispatch(t, c) {
                    Ok(d) => d,
                    Err(e) => fail!(i, "panic: collector creation", "{e}"),
                };
                let arc = if via { w.arcs[c].clone() } else { None };
                let by_value = arc.is_some();
                let emitter = by_value && drop_emits;
                if let Err(e) = w.st.run(t, move |s| {
                    s.guards.push(match arc {
                        Some(a) if emitter => tracing::collect::set_default(DropEmitter(a)),
                        Some(a) => tracing::collect::set_default(a),
                        None => dispatch::set_default(&d),
                    })
                }) {
                    fail!(i, "panic: set_default", "{e}");
                }
                w.emitters[t].push(emitter);
                if by_value {
                    // (the fresh Dispatch announces itself to the collector: not an emission)
                    if let Some(s) = &w.shared[c] {
                        s.take();
                    }
                    classes.push("collector_given_by_value".into());
                }
                w.stacks[t].push(c as u8);
                if w.global.is_none() {
                    active_before_global[t] = true;
                }
            }
            Op::Close { t } => {
                let t = t as usize % NT;
                if w.stacks[t].pop().is_some() {
                    let emitter = w.emitters[t].pop().unwrap_or(false);
                    if emitter {
                        w.drain();
                    }
                    if let Err(e) = w.st.run(t, |s| drop(s.guards.pop())) {
                        fail!(i, "panic: guard drop", "{e}");
                    }
                    if emitter {
                        // the collector of the closed scope is dropped when the thread is already
                        // back in the enclosing scope: its parting event belongs there
                        let want = w.receiver(t);
                        let logs = w.drain();
                        let ev: Vec<(u8, usize)> = logs.iter().map(|(c, calls)| (*c, calls.iter().filter(|x| x.kind == Kind::Event).count())).filter(|x| x.1 > 0).collect();
                        let want_ev: Vec<(u8, usize)> = want.map(|c| vec![(c, 1)]).unwrap_or_default();
                        if ev != want_ev {
                            fail!(i, "event emitted while a scope closes is not delivered to the enclosing scope", "deliveries (collector,count) {ev:?}, expected {want_ev:?}; stacks {:?} global {:?}", w.stacks, w.global);
                        }
                        classes.push("collector_emits_from_drop_while_scope_closes".into());
                    }
                }
            }
            Op::PanicScope { t, c, via } => {
                let (t, c) = (t as usize % NT, c as usize % NC);
                let d = match w.dispatch(t, c) {
                    Ok(d) => d,
                    Err(e) => fail!(i, "panic: collector creation", "{e}"),
                };
                let arc = if via { w.arcs[c].clone() } else { None };
                let r = w.st.run(t, move |_| {
                    let r = std::panic::catch_unwind(std::panic::AssertUnwindSafe(|| {
                        let body = || {
                            emit(0);
                            panic!("scripted panic inside with_default");
                        };
                        match arc {
                            Some(a) => tracing::collect::with_default(a, body),
                            None => dispatch::with_default(&d, body),
                        }
                    }));
                    r.is_err()
                });
                match r {
                    Ok(true) => {}
                    Ok(false) => fail!(i, "harness", "scripted panic did not propagate"),
                    Err(e) => fail!(i, "panic: with_default", "{e}"),
                }
                if w.global.is_none() {
                    active_before_global[t] = true;
                }
                // the emission inside the scope belongs to c, and only to c
                let logs = w.drain();
                let ev: Vec<(u8, usize)> = logs.iter().map(|(c, calls)| (*c, calls.iter().filter(|x| x.kind == Kind::Event).count())).filter(|x| x.1 > 0).collect();
                let want_ev: Vec<(u8, usize)> = if c == 4 { vec![] } else { vec![(c as u8, 1)] };
                if ev != want_ev {
                    fail!(i, "emission inside with_default misrouted", "deliveries {ev:?}, expected {want_ev:?}");
                }
                classes.push("panic_scope".into());
            }
            Op::SetGlobal { t, c, via } => {
                let (t, c) = (t as usize % NT, c as usize % NC);
                let d = match w.dispatch(t, c) {
                    Ok(d) => d,
                    Err(e) => fail!(i, "panic: collector creation", "{e}"),
                };
                let arc = if via { w.arcs[c].clone() } else { None };
                let by_value = arc.is_some();
                let r = match w.st.run(t, move |_| match arc {
                    Some(a) => tracing::collect::set_global_default(a).is_ok(),
                    None => dispatch::set_global_default(d).is_ok(),
                }) {
                    Ok(r) => r,
                    Err(e) => fail!(i, "panic: set_global_default", "{e}"),
                };
                if by_value {
                    if let Some(s) = &w.shared[c] {
                        s.take();
                    }
                    classes.push("collector_given_by_value".into());
                }
                global_attempts += 1;
                let want = w.global.is_none();
                if r != want {
                    fail!(i, "set_global_default result", "returned ok={r}, expected ok={want} (attempt {global_attempts})");
                }
                if want {
                    w.global = Some(c as u8);
                }
            }
            Op::Emit { t, cs } | Op::EmitPanic { t, cs } => {
                let t = t as usize % NT;
                let panicking = matches!(op, Op::EmitPanic { .. });
                let want = w.receiver(t);
                if panicking {
                    if let Some(s) = want.and_then(|c| w.shared[c as usize].as_ref()) {
                        s.panic_next.store(true, std::sync::atomic::Ordering::SeqCst);
                        classes.push("collector_panicked_in_callback".into());
                    }
                }
                let expect_panic = panicking && want.is_some();
                match w.st.run(t, move |_| std::panic::catch_unwind(|| emit(cs % 4)).is_err()) {
                    Ok(p) if p == expect_panic => {}
                    Ok(p) => fail!(i, "panic: emit", "emission panicked={p}, expected panicked={expect_panic}"),
                    Err(e) => fail!(i, "panic: emit", "{e}"),
                }
                let logs = w.drain();
                let is_span = cs % 4 == 3;
                let got: Vec<(u8, usize)> = logs
                    .iter()
                    .map(|(c, calls)| (*c, calls.iter().filter(|x| if is_span { x.kind == Kind::NewSpan } else { x.kind == Kind::Event }).count()))
                    .filter(|x| x.1 > 0)
                    .collect();
                let expect: Vec<(u8, usize)> = want.map(|c| vec![(c, 1)]).unwrap_or_default();
                if got != expect {
                    let others_scoped = (0..NT).any(|u| u != t && !w.stacks[u].is_empty());
                    let sig = if got.is_empty() && w.stacks[t].is_empty() && w.global.is_some() {
                        if others_scoped { "unscoped emission lost after global default was set (another thread holds a scope)" } else { "unscoped emission lost after global default was set" }
                    } else if got.is_empty() {
                        "scoped emission lost"
                    } else if expect.is_empty() {
                        "emission delivered although no default applies"
                    } else {
                        "emission delivered to the wrong collector"
                    };
                    fail!(i, sig, "deliveries (collector,count) {got:?}, expected {expect:?}; stacks {:?} global {:?}", w.stacks, w.global);
                }
                // every logged call happened on thread t
                if let Some((c, call)) = logs.iter().flat_map(|(c, calls)| calls.iter().map(move |x| (c, x))).find(|(_, x)| x.thread != t as u8) {
                    fail!(i, "call on foreign thread", "collector {c} saw {:?} tagged T{}", call.kind, call.thread);
                }
                if w.global.is_none() {
                    active_before_global[t] = true;
                } else if w.stacks[t].is_empty() && active_before_global[t] && (0..NT).any(|u| u != t && !w.stacks[u].is_empty()) {
                    nontrivial = true;
                }
            }
            Op::Query { t } => {
                let t = t as usize % NT;
                let r = w.st.run(t, |_| {
                    (
                        current_id(),
                        Dispatch::default().downcast_ref::<RecCollector>().map(|r| r.0.id),
                        dispatch::get_current(|d| d.downcast_ref::<RecCollector>().map(|r| r.0.id)),
                    )
                });
                let (a, b, cur) = match r {
                    Ok(x) => x,
                    Err(e) => fail!(i, "panic: get_default", "{e}"),
                };
                let want = w.receiver(t).map(|c| c as u32);
                if w.selected(t) == Some(4) {
                    classes.push("noop_dispatcher_scoped".into());
                }
                if cur != Some(want) {
                    fail!(i, "get_current identity", "get_current -> {cur:?}, expected Some({want:?}); stacks {:?} global {:?}", w.stacks, w.global);
                }
                if a != want || b != want {
                    let sig = if w.stacks[t].is_empty() && w.global.is_some() { "get_default ignores the global default" } else { "get_default identity" };
                    fail!(i, sig, "get_default -> {a:?}, Dispatch::default() -> {b:?}, expected {want:?}; stacks {:?} global {:?}", w.stacks, w.global);
                }
                if w.global.is_none() {
                    active_before_global[t] = true;
                }
            }
            Op::ArmExitEmit { t, scope } => {
                let t = t as usize % NT;
                if !armed[t] {
                    let d = match scope {
                        Some(c) => match w.dispatch(t, c as usize % NC) {
                            Ok(d) => Some(d),
                            Err(e) => fail!(i, "panic: collector creation", "{e}"),
                        },
                        None => None,
                    };
                    scoped_exit[t] = d.is_some();
                    if let Err(e) = w.st.run(t, move |_| AT_EXIT.with(|a| *a.borrow_mut() = Some(ExitEmitter(d)))) {
                        fail!(i, "panic: thread-local", "{e}");
                    }
                    armed[t] = true;
                }
            }
            Op::PollWith { t, c, on } => {
                use tracing::instrument::WithCollector;
                let (t, on) = (t as usize % NT, on as usize % NT);
                // the collector the future carries
                let carried: Option<u8> = match c {
                    Some(c) => Some((c as usize % NC) as u8),
                    None => w.selected(t),
                };
                let want: Option<u8> = carried.filter(|c| *c != 4);
                w.drain();
                let r = match c {
                    Some(c) => {
                        let d = match w.dispatch(t, c as usize % NC) {
                            Ok(d) => d,
                            Err(e) => fail!(i, "panic: collector creation", "{e}"),
                        };
                        w.st.run(on, move |_| poll_once(async { emit(0) }.with_collector(d)))
                    }
                    None => {
                        // created on t (captures t's current default), polled on `on`
                        let fut = match w.st.run(t, |_| {
                            let inner: std::pin::Pin<Box<dyn std::future::Future<Output = ()>>> = Box::pin(async { emit(0) });
                            SendFut(Box::pin(inner.with_current_collector()))
                        }) {
                            Ok(f) => f,
                            Err(e) => fail!(i, "panic: with_current_collector", "{e}"),
                        };
                        w.st.run(on, move |_| {
                            let fut = fut; // (moved as a whole: the wrapper is what is Send)
                            poll_once(fut.0)
                        })
                    }
                };
                if let Err(e) = r {
                    fail!(i, "panic: polling a WithDispatch future", "{e}");
                }
                let logs = w.drain();
                let ev: Vec<(u8, usize)> = logs.iter().map(|(c, calls)| (*c, calls.iter().filter(|x| x.kind == Kind::Event).count())).filter(|x| x.1 > 0).collect();
                let want_ev: Vec<(u8, usize)> = want.map(|c| vec![(c, 1)]).unwrap_or_default();
                if ev != want_ev {
                    fail!(i, "emission inside a future polled with its own collector misrouted", "deliveries (collector,count) {ev:?}, expected {want_ev:?}; stacks {:?} global {:?}", w.stacks, w.global);
                }
                if w.global.is_none() {
                    active_before_global[on] = true;
                }
                classes.push("future_polled_with_its_own_collector".into());
            }
            Op::EndThread { t } => {
                let t = t as usize % NT;
                if w.st.started(t) && !w.emitters[t].iter().any(|e| *e) {
                    if armed[t] {
                        w.drain();
                    }
                    w.st.finish(t);
                    w.stacks[t].clear();
                    w.emitters[t].clear();
                    if armed[t] {
                        armed[t] = false;
                        // the thread's own scopes are gone by the time its thread-locals are
                        // destroyed: the parting event belongs to the global default. Judged only
                        // when no other thread holds a scope (with a scope open somewhere the
                        // dispatcher has to consult the dying thread's own state, which may be gone)
                        let logs = w.drain();
                        // (a scope opened by the destructor itself may or may not take effect,
                        // depending on which thread-local is destroyed first: not judged - what
                        // is judged is that the other threads' scopes still work afterwards)
                        if w.stacks.iter().all(|s| s.is_empty()) && !scoped_exit[t] {
                            let ev: Vec<(u8, usize)> = logs.iter().map(|(c, calls)| (*c, calls.iter().filter(|x| x.kind == Kind::Event).count())).filter(|x| x.1 > 0).collect();
                            let want_ev: Vec<(u8, usize)> = w.global.filter(|c| *c != 4).map(|c| vec![(c, 1)]).unwrap_or_default();
                            if ev != want_ev {
                                fail!(i, "event emitted while the thread ends is not delivered to the global default", "deliveries (collector,count) {ev:?}, expected {want_ev:?}; global {:?}", w.global);
                            }
                            classes.push("emission_from_a_thread_local_destructor".into());
                        }
                    }
                    active_before_global[t] = false;
                    classes.push("thread_restart".into());
                }
            }
        }
    }
    if w.global.is_some() {
        classes.push("global_set".into());
    }
    if global_attempts > 1 {
        classes.push("global_attempted_twice".into());
    }
    if nontrivial {
        classes.push("late_global_seen_by_active_thread".into());
    }
    classes.sort();
    classes.dedup();
    // unwind everything LIFO; a panic here is a violation as well
    let r = std::panic::catch_unwind(std::panic::AssertUnwindSafe(move || drop(w)));
    if r.is_err() {
        return Outcome::fail("panic: teardown", "dropping the remaining scopes panicked");
    }
    Outcome::pass(nontrivial, classes)
}

struct C02;

impl Property for C02 {
    type Case = Case;
    fn id(&self) -> &'static str {
        "C02"
    }
    fn isolation(&self) -> Isolation {
        Isolation::Child
    }
    fn cases(&self, tier: Tier) -> u32 {
        tier.pick(20_000, 300_000)
    }
    fn strategy(&self, tier: Tier) -> BoxedStrategy<Case> {
        let t = 0u8..NT as u8;
        let c = 0u8..NC as u8;
        let op = prop_oneof![
            5 => (t.clone(), c.clone(), proptest::bool::weighted(0.3), proptest::bool::weighted(0.4)).prop_map(|(t, c, via, drop_emits)| Op::Open { t, c, via, drop_emits }),
            4 => t.clone().prop_map(|t| Op::Close { t }),
            1 => (t.clone(), c.clone(), proptest::bool::weighted(0.3)).prop_map(|(t, c, via)| Op::PanicScope { t, c, via }),
            2 => (t.clone(), c.clone(), proptest::bool::weighted(0.4)).prop_map(|(t, c, via)| Op::SetGlobal { t, c, via }),
            8 => (t.clone(), 0u8..4).prop_map(|(t, cs)| Op::Emit { t, cs }),
            1 => (t.clone(), 0u8..4).prop_map(|(t, cs)| Op::EmitPanic { t, cs }),
            2 => t.clone().prop_map(|t| Op::Query { t }),
            1 => t.clone().prop_map(|t| Op::EndThread { t }),
            1 => (t.clone(), proptest::option::weighted(0.5, c.clone())).prop_map(|(t, scope)| Op::ArmExitEmit { t, scope }),
            2 => (t.clone(), proptest::option::weighted(0.6, c.clone()), t).prop_map(|(t, c, on)| Op::PollWith { t, c, on }),
        ];
        let max = tier.pick(24usize, 40usize);
        // half of the cases: plain op soup. other half: prefix (scopes/emits, no global) then a
        // late SetGlobal then more ops, which is the shape the thread-local cache is wrong for.
        let soup = proptest::collection::vec(op.clone(), 0..max).prop_map(|ops| Case { ops });
        let late = (proptest::collection::vec(op.clone(), 1..max / 2), 0u8..NT as u8, 0u8..NC as u8, proptest::collection::vec(op, 1..max / 2), any::<bool>())
            .prop_map(|(pre, t, c, post, via)| {
                let mut ops: Vec<Op> = pre.into_iter().filter(|o| !matches!(o, Op::SetGlobal { .. })).collect();
                ops.push(Op::SetGlobal { t, c, via });
                ops.extend(post);
                Case { ops }
            });
        let _ = pick(0, 1);
        prop_oneof![soup, late].boxed()
    }
    fn run(&self, case: &Case) -> Outcome {
        run_case(case)
    }
    fn rule(&self) -> String {
        "histories of <=24 (thorough <=40) ops {Open,Close,PanicScope,SetGlobal (each through the dispatch:: functions with a Dispatch, or through tracing::collect::* with the collector given by value),Emit(3 event + 1 span macro callsites),EmitPanic(collector panics inside the callback, caught),Query,EndThread} over 4 stepped OS threads and 5 dispatchers (3 Dispatch::new recorders, 1 Dispatch::from_static recorder, Dispatch::none()), one fresh process per history; half of the cases force a SetGlobal strictly inside the history. non-trivial: a thread that used a scope, emitted or queried before the first successful set_global_default later emits with no scope of its own while another thread holds one; distinct by op list".into()
    }
    fn assumptions(&self) -> Vec<String> {
        vec![
            "all collectors accept everything, so only dispatcher selection is under test (caches are C01's subject)".into(),
            "operations are executed one at a time (sequential history); racing set_global_default/get_default is not explored by this check".into(),
            "guards are dropped LIFO (properly nested scopes), as the property quantifies".into(),
        ]
    }
}

fn main() {
    vp_engine::main(C02)
}
