//! C09 — every layer sees every notification exactly once (inner before outer, a veto stops
//! delivery to all), and the pass-through wrappers (Box / Arc collectors; Box, Some, one-element
//! Vec, reload, Identity around layers; Box, Arc, Some, reload around filters) are transparent,
//! None and an empty Vec behave as if absent.
//!
//! Case = a wrapped stack description + leaf veto configuration + a workload over every method
//! of Collect (issued through `Dispatch` on static metadata, so no process-global cache is
//! involved). The same workload is run against the wrapped stack and against the *stripped*
//! stack (wrappers removed, None/[] deleted); every leaf's log must be identical (ids
//! normalised by first appearance). On the stripped run of unfiltered stacks the invariants
//! are checked directly: identical notification sequence at every leaf, expected count per
//! operation, inner leaves stamped before outer ones.

use proptest::prelude::*;
use serde::{Deserialize, Serialize};
use std::collections::HashMap;
use std::sync::atomic::{AtomicU64, Ordering};
use std::sync::{Arc, Mutex};
use tracing_core::collect::{Collect, Interest};
use tracing_core::field::Value;
use tracing_core::{span, Dispatch, Event, Metadata};
use tracing_subscriber::registry::Registry;
use tracing_subscriber::subscribe::{CollectExt, Subscribe};
use vp_engine::{Isolation, Outcome, Property, Tier};
use vp_sub::universe::{METAS, N};
use vp_sub::*;

const NSLOT: usize = 4;

#[derive(Clone, Copy, Debug, Serialize, Deserialize, PartialEq)]
enum Base {
    Registry,
    /// a collector that hands out a new id from every clone_span (so on_id_change fires)
    IdChanging,
}
#[derive(Clone, Copy, Debug, Serialize, Deserialize, PartialEq)]
enum CWrap {
    Plain,
    Boxed,
    Arc,
    /// `Dispatch::from_static` of a leaked collector
    Static,
}
#[derive(Clone, Copy, Debug, Default, Serialize, Deserialize, PartialEq)]
struct LeafCfg {
    veto_level: Option<u8>,
    veto_cs: Option<i64>,
}
#[derive(Clone, Debug, Serialize, Deserialize, PartialEq)]
enum Op {
    /// what a macro does for a `sometimes` callsite: enabled(), then dispatch if true
    Event { m: u8, gated: bool },
    NewSpan { m: u8, slot: u8, gated: bool },
    Record { slot: u8 },
    Follows { slot: u8, other: u8 },
    Enter { slot: u8 },
    Exit,
    CloneSpan { slot: u8, to: u8 },
    Close { slot: u8 },
    /// like Close, but the last reference is released by a destructor that runs while a panic
    /// (caught right away) unwinds the stack
    CloseUnwinding { slot: u8 },
}
#[derive(Clone, Debug, Serialize, Deserialize)]
struct Case {
    base: Base,
    cwrap: CWrap,
    tree: Node,
    cfg: Vec<LeafCfg>,
    ops: Vec<Op>,
}

// ---- the id-changing base collector ---------------------------------------------------------
struct IdBase {
    next: AtomicU64,
    log: LeafLog,
}
impl IdBase {
    fn push(&self, kind: LKind, id: u64, id2: u64) {
        self.log.lock().unwrap().push(LCall { seq: next_seq(), kind, thread: vp_rec::tag(), id, id2, cs: -1, level: 0, target: String::new(), current: None, scope: vec![] });
    }
}
impl Collect for IdBase {
    fn on_register_dispatch(&self, _: &Dispatch) {
        self.push(LKind::RegisterDispatch, 0, 0);
    }
    fn register_callsite(&self, _: &'static Metadata<'static>) -> Interest {
        Interest::sometimes()
    }
    fn enabled(&self, _: &Metadata<'_>) -> bool {
        true
    }
    fn new_span(&self, _: &span::Attributes<'_>) -> span::Id {
        let id = self.next.fetch_add(1, Ordering::SeqCst);
        self.push(LKind::NewSpan, id, 0);
        span::Id::from_u64(id)
    }
    fn record(&self, id: &span::Id, _: &span::Record<'_>) {
        self.push(LKind::Record, id.into_u64(), 0);
    }
    fn record_follows_from(&self, id: &span::Id, f: &span::Id) {
        self.push(LKind::FollowsFrom, id.into_u64(), f.into_u64());
    }
    fn event(&self, _: &Event<'_>) {
        self.push(LKind::Event, 0, 0);
    }
    fn enter(&self, id: &span::Id) {
        self.push(LKind::Enter, id.into_u64(), 0);
    }
    fn exit(&self, id: &span::Id) {
        self.push(LKind::Exit, id.into_u64(), 0);
    }
    fn clone_span(&self, id: &span::Id) -> span::Id {
        let new = self.next.fetch_add(1, Ordering::SeqCst);
        self.push(LKind::IdChange, id.into_u64(), new);
        span::Id::from_u64(new)
    }
    fn try_close(&self, id: span::Id) -> bool {
        self.push(LKind::Close, id.into_u64(), 0);
        true
    }
    fn current_span(&self) -> span::Current {
        span::Current::unknown()
    }
}

type BS2 = Box<dyn Subscribe<IdBase> + Send + Sync>;
fn build_generic(n: &Node, logs: &mut Vec<LeafLog>, cfg: &[LeafCfg]) -> BS2 {
    match n {
        Node::Leaf => {
            let log: LeafLog = Arc::new(Mutex::new(vec![]));
            logs.push(log.clone());
            let c = cfg.get(logs.len() - 1).copied().unwrap_or_default();
            Rec9 { log, veto_cs: c.veto_cs, veto_level: c.veto_level }.boxed()
        }
        Node::Layered(a, b) => {
            let a = build_generic(a, logs, cfg);
            let b = build_generic(b, logs, cfg);
            a.and_then(b).boxed()
        }
        Node::Vec(v) => {
            let v: Vec<BS2> = v.iter().map(|x| build_generic(x, logs, cfg)).collect();
            v.boxed()
        }
        Node::Opt(Some(x)) => Some(build_generic(x, logs, cfg)).boxed(),
        Node::Opt(None) => None::<BS2>.boxed(),
        Node::Boxed(x) => Box::new(build_generic(x, logs, cfg)).boxed(),
        Node::Reload(x) => tracing_subscriber::reload::Subscriber::new(build_generic(x, logs, cfg)).0.boxed(),
        Node::Identity(x) => tracing_subscriber::subscribe::Identity::new().and_then(build_generic(x, logs, cfg)).boxed(),
        // not generated for this base
        Node::Filtered(x, _) => build_generic(x, logs, cfg),
        Node::Global(_) => tracing_subscriber::subscribe::Identity::new().boxed(),
    }
}

// ---- stripping -------------------------------------------------------------------------------
fn strip_f(f: &FExpr) -> FExpr {
    match f {
        FExpr::Arc(a) | FExpr::Reload(a) | FExpr::Opt(Some(a)) => strip_f(a),
        FExpr::And(a, b) => FExpr::And(Box::new(strip_f(a)), Box::new(strip_f(b))),
        FExpr::Or(a, b) => FExpr::Or(Box::new(strip_f(a)), Box::new(strip_f(b))),
        FExpr::Not(a) => FExpr::Not(Box::new(strip_f(a))),
        x => x.clone(),
    }
}
/// None = absent
fn strip(n: &Node) -> Option<Node> {
    match n {
        Node::Leaf => Some(Node::Leaf),
        Node::Global(g) => Some(Node::Global(g.clone())),
        Node::Boxed(a) | Node::Reload(a) | Node::Identity(a) => strip(a),
        Node::Opt(None) => None,
        Node::Opt(Some(a)) => strip(a),
        Node::Vec(v) => match v.len() {
            0 => None,
            _ => {
                let mut it = v.iter().filter_map(strip);
                let first = it.next()?;
                Some(it.fold(first, |acc, x| Node::Layered(Box::new(acc), Box::new(x))))
            }
        },
        Node::Layered(a, b) => match (strip(a), strip(b)) {
            (Some(a), Some(b)) => Some(Node::Layered(Box::new(a), Box::new(b))),
            (Some(a), None) | (None, Some(a)) => Some(a),
            (None, None) => None,
        },
        Node::Filtered(a, f) => strip(a).map(|a| Node::Filtered(Box::new(a), strip_f(f))),
    }
}

struct Run {
    dispatch: Dispatch,
    logs: Vec<LeafLog>,
    base_log: Option<LeafLog>,
    /// `Collect::max_level_hint` of the assembled stack (rank, 0 = OFF)
    hint: Option<u8>,
}
fn hint_of<C: tracing_core::Collect>(c: &C) -> Option<u8> {
    c.max_level_hint().map(|h| h.into_level().map(|l| vp_rec::rank(&l)).unwrap_or(0))
}
fn build(case: &Case, tree: Option<&Node>, cwrap: CWrap) -> Run {
    // a collector behind `Dispatch::from_static` is leaked and stays in the callsite registry for
    // the life of the process (cases share the shard's process here): only the first few hundred
    // such cases of a process really use it, later ones fall back to a plain Dispatch
    static STATIC_LEFT: std::sync::atomic::AtomicIsize = std::sync::atomic::AtomicIsize::new(300);
    let cwrap = if cwrap == CWrap::Static && STATIC_LEFT.fetch_sub(1, std::sync::atomic::Ordering::SeqCst) <= 0 { CWrap::Plain } else { cwrap };
    let mut logs = vec![];
    match case.base {
        Base::Registry => {
            let cfg = case.cfg.clone();
            let layer: BS = match tree {
                Some(t) => build_tree(t, &mut logs, &mut |log, idx| {
                    let c = cfg.get(idx).copied().unwrap_or_default();
                    RecLeaf { log, verbose: true, veto_cs: c.veto_cs, veto_level: c.veto_level }.boxed()
                }),
                None => tracing_subscriber::subscribe::Identity::new().boxed(),
            };
            let c = Registry::default().with(layer);
            let hint = hint_of(&c);
            let dispatch = match cwrap {
                CWrap::Plain => Dispatch::new(c),
                CWrap::Boxed => Dispatch::new(Box::new(c)),
                CWrap::Arc => Dispatch::new(Arc::new(c)),
                CWrap::Static => Dispatch::from_static(Box::leak(Box::new(c))),
            };
            Run { dispatch, logs, base_log: None, hint }
        }
        Base::IdChanging => {
            let layer: BS2 = match tree {
                Some(t) => build_generic(t, &mut logs, &case.cfg),
                None => tracing_subscriber::subscribe::Identity::new().boxed(),
            };
            let bl: LeafLog = Arc::new(Mutex::new(vec![]));
            let c = layer.with_collector(IdBase { next: AtomicU64::new(1), log: bl.clone() });
            let hint = hint_of(&c);
            let dispatch = match cwrap {
                CWrap::Plain => Dispatch::new(c),
                CWrap::Boxed => Dispatch::new(Box::new(c)),
                CWrap::Arc => Dispatch::new(Arc::new(c)),
                CWrap::Static => Dispatch::from_static(Box::leak(Box::new(c))),
            };
            Run { dispatch, logs, base_log: Some(bl), hint }
        }
    }
}

/// what the interpreter did for an op (drives the exactly-once invariant)
#[derive(Debug, Clone, PartialEq)]
enum Did {
    Skipped,
    Event { dispatched: bool, cs: i64 },
    NewSpan { created: bool },
    Record,
    Follows,
    Enter,
    Exit,
    Clone,
    Close,
    Teardown,
}

fn workload(d: &Dispatch, ops: &[Op], marks: &mut Vec<(Did, u64)>) {
    let _g = tracing_core::dispatch::set_default(d);
    let mut slots: Vec<Option<span::Id>> = vec![None; NSLOT];
    let mut entered: Vec<span::Id> = vec![];
    for m in METAS.iter() {
        d.register_callsite(m);
    }
    marks.push((Did::Skipped, next_seq()));
    let span_metas: Vec<usize> = (0..N).filter(|i| METAS[*i].is_span()).collect();
    let event_metas: Vec<usize> = (0..N).filter(|i| METAS[*i].is_event()).collect();
    let mk_values = |i: usize, f: &mut dyn FnMut(&tracing_core::field::ValueSet<'_>)| {
        let m = &METAS[i];
        let fs = m.fields();
        let cs_f = fs.field("cs").unwrap();
        let cs_v = i as u64;
        if let Some(xf) = fs.field("x") {
            let xv = 1u64;
            let vals = [(&cs_f, Some(&cs_v as &dyn Value)), (&xf, Some(&xv as &dyn Value))];
            f(&fs.value_set(&vals));
        } else {
            let vals = [(&cs_f, Some(&cs_v as &dyn Value))];
            f(&fs.value_set(&vals));
        }
    };
    for op in ops {
        let did = match *op {
            Op::Event { m, gated } => {
                let i = event_metas[m as usize % event_metas.len()];
                if !gated || d.enabled(&METAS[i]) {
                    mk_values(i, &mut |vs| d.event(&Event::new(&METAS[i], vs)));
                    Did::Event { dispatched: true, cs: i as i64 }
                } else {
                    Did::Event { dispatched: false, cs: i as i64 }
                }
            }
            Op::NewSpan { m, slot, gated } => {
                let s = slot as usize % NSLOT;
                let i = span_metas[m as usize % span_metas.len()];
                if slots[s].is_some() {
                    Did::Skipped
                } else if !gated || d.enabled(&METAS[i]) {
                    mk_values(i, &mut |vs| slots[s] = Some(d.new_span(&span::Attributes::new(&METAS[i], vs))));
                    Did::NewSpan { created: true }
                } else {
                    Did::NewSpan { created: false }
                }
            }
            Op::Record { slot } => match &slots[slot as usize % NSLOT] {
                Some(id) => {
                    // every span metadata has the field `cs`; which metadata the span has does
                    // not matter for forwarding, any field set of a span callsite will do
                    let m = &METAS[span_metas[0]];
                    let fs = m.fields();
                    let cs_f = fs.field("cs").unwrap();
                    let v = 9u64;
                    let vals = [(&cs_f, Some(&v as &dyn Value))];
                    let vs = fs.value_set(&vals);
                    d.record(id, &span::Record::new(&vs));
                    Did::Record
                }
                None => Did::Skipped,
            },
            Op::Follows { slot, other } => match (&slots[slot as usize % NSLOT], &slots[other as usize % NSLOT]) {
                (Some(a), Some(b)) => {
                    d.record_follows_from(a, b);
                    Did::Follows
                }
                _ => Did::Skipped,
            },
            Op::Enter { slot } => match &slots[slot as usize % NSLOT] {
                // (a span that is already entered may be entered again: one more enter / exit pair)
                Some(id) => {
                    d.enter(id);
                    entered.push(id.clone());
                    Did::Enter
                }
                _ => Did::Skipped,
            },
            Op::Exit => match entered.pop() {
                Some(id) => {
                    d.exit(&id);
                    Did::Exit
                }
                None => Did::Skipped,
            },
            Op::CloneSpan { slot, to } => {
                let (s, t) = (slot as usize % NSLOT, to as usize % NSLOT);
                match (slots[s].clone(), slots[t].is_none()) {
                    (Some(id), true) => {
                        slots[t] = Some(d.clone_span(&id));
                        Did::Clone
                    }
                    _ => Did::Skipped,
                }
            }
            Op::Close { slot } => {
                let s = slot as usize % NSLOT;
                match slots[s].clone() {
                    Some(id) if !entered.contains(&id) => {
                        slots[s] = None;
                        d.try_close(id);
                        Did::Close
                    }
                    _ => Did::Skipped,
                }
            }
            Op::CloseUnwinding { slot } => {
                let s = slot as usize % NSLOT;
                match slots[s].clone() {
                    Some(id) if !entered.contains(&id) => {
                        slots[s] = None;
                        struct Releases<'a>(&'a Dispatch, Option<span::Id>);
                        impl Drop for Releases<'_> {
                            fn drop(&mut self) {
                                if let Some(id) = self.1.take() {
                                    self.0.try_close(id);
                                }
                            }
                        }
                        let r = std::panic::catch_unwind(std::panic::AssertUnwindSafe(|| {
                            let _g = Releases(d, Some(id));
                            panic!("scripted panic over a span handle");
                        }));
                        assert!(r.is_err());
                        Did::Close
                    }
                    _ => Did::Skipped,
                }
            }
        };
        marks.push((did, next_seq()));
    }
    while let Some(id) = entered.pop() {
        d.exit(&id);
    }
    for s in slots.iter_mut() {
        if let Some(id) = s.take() {
            d.try_close(id);
        }
    }
    marks.push((Did::Teardown, next_seq()));
}

type Norm = (String, u64, u64, i64, u8, String, Option<u64>, Vec<u64>);
fn normalise(logs: &[LeafLog], base: &Option<LeafLog>) -> (Vec<Vec<Norm>>, Vec<Norm>) {
    let mut all: Vec<LCall> = logs.iter().flat_map(|l| l.lock().unwrap().clone()).collect();
    if let Some(b) = base {
        all.extend(b.lock().unwrap().clone());
    }
    all.sort_by_key(|c| c.seq);
    let mut map: HashMap<u64, u64> = HashMap::new();
    let mut see = |id: u64, map: &mut HashMap<u64, u64>| {
        if id != 0 {
            let n = map.len() as u64 + 1;
            map.entry(id).or_insert(n);
        }
    };
    for c in &all {
        see(c.id, &mut map);
        see(c.id2, &mut map);
    }
    let norm = |c: &LCall| -> Norm {
        let g = |x: u64| if x == 0 { 0 } else { map[&x] };
        (format!("{:?}", c.kind), g(c.id), g(c.id2), c.cs, c.level, c.target.clone(), c.current.map(|x| map.get(&x).copied().unwrap_or(999)), c.scope.iter().map(|x| map.get(x).copied().unwrap_or(999)).collect())
    };
    (logs.iter().map(|l| l.lock().unwrap().iter().map(norm).collect()).collect(), base.as_ref().map(|b| b.lock().unwrap().iter().map(norm).collect()).unwrap_or_default())
}

fn wrapper_kinds(n: &Node, out: &mut Vec<&'static str>) {
    fn f(e: &FExpr, out: &mut Vec<&'static str>) {
        match e {
            FExpr::Arc(a) => {
                out.push("filter:Arc");
                f(a, out)
            }
            FExpr::Reload(a) => {
                out.push("filter:reload");
                f(a, out)
            }
            FExpr::Opt(Some(a)) => {
                out.push("filter:Some");
                f(a, out)
            }
            FExpr::And(a, b) | FExpr::Or(a, b) => {
                f(a, out);
                f(b, out)
            }
            FExpr::Not(a) => f(a, out),
            _ => {}
        }
    }
    match n {
        Node::Leaf | Node::Global(_) => {}
        Node::Boxed(a) => {
            out.push("layer:Box");
            wrapper_kinds(a, out)
        }
        Node::Reload(a) => {
            out.push("layer:reload");
            wrapper_kinds(a, out)
        }
        Node::Identity(a) => {
            out.push("layer:Identity");
            wrapper_kinds(a, out)
        }
        Node::Opt(None) => out.push("layer:None"),
        Node::Opt(Some(a)) => {
            out.push("layer:Some");
            wrapper_kinds(a, out)
        }
        Node::Vec(v) => {
            out.push(if v.is_empty() { "layer:Vec[]" } else { "layer:Vec[1]" });
            v.iter().for_each(|x| wrapper_kinds(x, out))
        }
        Node::Layered(a, b) => {
            wrapper_kinds(a, out);
            wrapper_kinds(b, out)
        }
        Node::Filtered(a, e) => {
            f(e, out);
            wrapper_kinds(a, out)
        }
    }
}

fn run_case(case: &Case) -> Outcome {
    let stripped = strip(&case.tree);
    // each run on its own thread: thread-local filter state of one run cannot reach the other
    let ((wn, wb), whint) = std::thread::scope(|sc| {
        sc.spawn(|| {
            let w = build(case, Some(&case.tree), case.cwrap);
            let mut wm = vec![];
            workload(&w.dispatch, &case.ops, &mut wm);
            (normalise(&w.logs, &w.base_log), w.hint)
        })
        .join()
    })
    .unwrap_or_else(|p| std::panic::resume_unwind(p));
    let (bn, bb, (raw, raw_base), bm, bhint) = std::thread::scope(|sc| {
        sc.spawn(|| {
            let b = build(case, stripped.as_ref(), CWrap::Plain);
            let bhint = b.hint;
            let mut bm = vec![];
            workload(&b.dispatch, &case.ops, &mut bm);
            let (bn, bb) = normalise(&b.logs, &b.base_log);
            let raw: Vec<Vec<LCall>> = b.logs.iter().map(|l| l.lock().unwrap().clone()).collect();
            let raw_base: Vec<LCall> = b.base_log.as_ref().map(|l| l.lock().unwrap().clone()).unwrap_or_default();
            (bn, bb, (raw, raw_base), bm, bhint)
        })
        .join()
    })
    .unwrap_or_else(|p| std::panic::resume_unwind(p));

    let mut kinds = vec![];
    wrapper_kinds(&case.tree, &mut kinds);
    match case.cwrap {
        CWrap::Boxed => kinds.push("collector:Box"),
        CWrap::Arc => kinds.push("collector:Arc"),
        CWrap::Static => kinds.push("collector:from_static"),
        CWrap::Plain => {}
    }
    kinds.sort();
    kinds.dedup();

    // (2) differential
    // (a wrapper may lose a hint - `Identity` has none to offer - which only makes the stack
    // more permissive; it must not publish a LOWER maximum than the stack without the wrappers,
    // because the macros would then withhold notifications the leaves used to observe)
    if whint.unwrap_or(6) < bhint.unwrap_or(6) {
        return Outcome::fail(format!("wrapper not transparent: the stack's max-level hint is lower than without the wrappers; wrappers={}", kinds.join("+")), format!("wrapped stack publishes {whint:?} (rank, 0 = OFF), the stack without the wrappers {bhint:?}; case = {}", serde_json::to_string(case).unwrap_or_default()));
    }
    if wn.len() != bn.len() {
        return Outcome::fail("harness: leaf count differs after stripping", format!("{} vs {}", wn.len(), bn.len()));
    }
    for (l, (a, bsl)) in wn.iter().zip(bn.iter()).enumerate() {
        if a != bsl {
            let pos = a.iter().zip(bsl.iter()).position(|(x, y)| x != y).unwrap_or(a.len().min(bsl.len()));
            let missing: Vec<&String> = bsl.iter().map(|x| &x.0).filter(|k| a.iter().filter(|y| &y.0 == *k).count() < bsl.iter().filter(|y| &y.0 == *k).count()).collect();
            let extra: Vec<&String> = a.iter().map(|x| &x.0).filter(|k| a.iter().filter(|y| &y.0 == *k).count() > bsl.iter().filter(|y| &y.0 == *k).count()).collect();
            let what = if let Some(k) = missing.first() {
                format!("{k} not forwarded")
            } else if let Some(k) = extra.first() {
                format!("{k} delivered more often")
            } else {
                "same notifications, different order or content".to_string()
            };
            return Outcome::fail(format!("wrapper not transparent: {what}; wrappers={}", kinds.join("+")), format!("leaf {l}: first difference at entry {pos}: wrapped {:?} vs plain {:?}; case = {}", a.get(pos), bsl.get(pos), serde_json::to_string(case).unwrap_or_default()));
        }
    }
    if wb != bb {
        let pos = wb.iter().zip(bb.iter()).position(|(x, y)| x != y).unwrap_or(wb.len().min(bb.len()));
        let missing: Vec<&String> = bb.iter().map(|x| &x.0).filter(|k| wb.iter().filter(|y| &y.0 == *k).count() < bb.iter().filter(|y| &y.0 == *k).count()).collect();
        return Outcome::fail(
            format!("wrapper not transparent for the collector: {}; wrappers={}", missing.first().map(|k| format!("{k} not forwarded")).unwrap_or_else(|| "different calls".into()), kinds.join("+")),
            format!("base collector: first difference at {pos}: wrapped {:?} vs plain {:?}", wb.get(pos), bb.get(pos)),
        );
    }

    // a filter that vetoes events of callsite `cs` in event_enabled (directly, through a
    // pass-through wrapper, or as an operand of `and`) means the leaf never sees such an event
    fn vetoes(f: &FExpr, out: &mut Vec<i64>) {
        match f {
            FExpr::EventVeto(c) => out.push(*c),
            FExpr::And(a, b) => {
                vetoes(a, out);
                vetoes(b, out)
            }
            FExpr::Arc(a) | FExpr::Reload(a) | FExpr::Opt(Some(a)) => vetoes(a, out),
            _ => {}
        }
    }
    if case.base == Base::Registry {
        let flat = flatten(&case.tree);
        for (l, path) in flat.leaf_paths.iter().enumerate() {
            let mut v = vec![];
            for f in path {
                vetoes(&flat.filters[*f], &mut v);
            }
            if let Some(c) = wn.get(l).and_then(|log| log.iter().find(|c| c.0 == "Event" && v.contains(&c.3))) {
                return Outcome::fail(format!("event delivered although the layer's filter vetoes it in event_enabled; wrappers={}", kinds.join("+")), format!("leaf {l} received event cs={} ; case = {}", c.3, serde_json::to_string(case).unwrap_or_default()));
            }
        }
    }

    // (1) invariants on the plain run of unfiltered stacks
    let unfiltered = !case.tree.has_filtered();
    let mut methods: Vec<String> = vec![];
    for l in &bn {
        for c in l {
            methods.push(c.0.clone());
        }
    }
    methods.sort();
    methods.dedup();
    if unfiltered && !raw.is_empty() {
        let data = |k: &LKind| matches!(k, LKind::NewSpan | LKind::Record | LKind::FollowsFrom | LKind::Event | LKind::Enter | LKind::Exit | LKind::Close | LKind::IdChange);
        // per-op windows by seq marks
        for w in bm.windows(2) {
            let (lo, hi) = (w[0].1, w[1].1);
            let did = &w[1].0;
            let per_leaf: Vec<Vec<&LCall>> = raw.iter().map(|l| l.iter().filter(|c| c.seq > lo && c.seq < hi && data(&c.kind)).collect()).collect();
            let want: Vec<LKind> = match did {
                Did::Event { dispatched: true, cs } => {
                    if case.cfg.iter().take(raw.len()).any(|c| c.veto_cs == Some(*cs)) {
                        vec![]
                    } else {
                        vec![LKind::Event]
                    }
                }
                Did::NewSpan { created: true } => vec![LKind::NewSpan],
                Did::Record => vec![LKind::Record],
                Did::Follows => vec![LKind::FollowsFrom],
                Did::Enter => vec![LKind::Enter],
                Did::Exit => vec![LKind::Exit],
                Did::Clone => {
                    if case.base == Base::IdChanging {
                        vec![LKind::IdChange]
                    } else {
                        vec![]
                    }
                }
                Did::Close | Did::Teardown => {
                    // a registry span closes when its last handle goes; counts are compared
                    // across leaves at the end
                    continue;
                }
                _ => vec![],
            };
            for (l, calls) in per_leaf.iter().enumerate() {
                let got: Vec<LKind> = calls.iter().map(|c| c.kind.clone()).collect();
                if got != want {
                    let sig = if got.len() > want.len() { "layer notified more than once (or after a veto)" } else { "layer missed a notification" };
                    return Outcome::fail(format!("{sig}: {:?}", want.first().or(got.first())), format!("op {:?}: leaf {l} got {:?}, expected {:?}; case = {}", did, got, want, serde_json::to_string(case).unwrap_or_default()));
                }
            }
            // the collector itself is the innermost: it is told before any layer
            if !want.is_empty() && !per_leaf.is_empty() {
                if let Some(bc) = raw_base.iter().find(|c| c.seq > lo && c.seq < hi && data(&c.kind)) {
                    if bc.seq > per_leaf[0][0].seq {
                        return Outcome::fail(format!("layer notified before the collector: {:?}", want[0]), format!("op {:?}: collector stamped {}, innermost leaf {}", did, bc.seq, per_leaf[0][0].seq));
                    }
                }
            }
            // inner before outer
            if !want.is_empty() {
                for l in 1..per_leaf.len() {
                    if per_leaf[l - 1][0].seq > per_leaf[l][0].seq {
                        return Outcome::fail(format!("outer layer notified before inner layer: {:?}", want[0]), format!("op {:?}: leaf {} stamped {} but inner leaf {} stamped {}", did, l, per_leaf[l][0].seq, l - 1, per_leaf[l - 1][0].seq));
                    }
                }
            }
        }
        // whole-run: by the end of the teardown every handle is gone, so on a span registry every
        // span that was created has been closed, once, for every layer
        if case.base == Base::Registry {
            let created = bm.iter().filter(|m| matches!(m.0, Did::NewSpan { created: true })).count();
            for (l, calls) in raw.iter().enumerate() {
                let closes = calls.iter().filter(|c| c.kind == LKind::Close).count();
                if closes != created {
                    return Outcome::fail(
                        if closes < created { "layer missed a notification: Some(Close)" } else { "layer notified more than once (or after a veto): Some(Close)" },
                        format!("leaf {l} saw {closes} on_close calls for {created} spans whose handles are all gone; case = {}", serde_json::to_string(case).unwrap_or_default()),
                    );
                }
            }
        }
        // whole-run: every leaf has the same data notifications; one RegisterDispatch; N callsites
        let seqs: Vec<Vec<(String, u64, u64, i64)>> = bn.iter().map(|l| l.iter().filter(|c| !matches!(c.0.as_str(), "RegisterCallsite" | "Enabled" | "EventEnabled" | "RegisterDispatch")).map(|c| (c.0.clone(), c.1, c.2, c.3)).collect()).collect();
        for l in 1..seqs.len() {
            if seqs[l] != seqs[0] {
                return Outcome::fail("layers of one unfiltered stack saw different notifications", format!("leaf {l} vs leaf 0: {:?} vs {:?}", seqs[l], seqs[0]));
            }
        }
        for (l, log) in bn.iter().enumerate() {
            let rd = log.iter().filter(|c| c.0 == "RegisterDispatch").count();
            if rd != 1 {
                return Outcome::fail("on_register_dispatch not delivered exactly once", format!("leaf {l}: {rd} calls; case = {}", serde_json::to_string(case).unwrap_or_default()));
            }
            let rc = log.iter().filter(|c| c.0 == "RegisterCallsite").count();
            if rc != N {
                return Outcome::fail("register_callsite not delivered exactly once per callsite", format!("leaf {l}: {rc} calls for {N} callsites"));
            }
        }
    }
    let mut classes: Vec<String> = kinds.iter().map(|k| k.to_string()).collect();
    classes.push(format!("base:{:?}", case.base));
    classes.push(format!("methods_exercised:{}", methods.len()));
    Outcome::pass(!kinds.is_empty() && methods.len() >= 8, classes)
}

fn c09_filter() -> BoxedStrategy<FExpr> {
    prop_oneof![4 => fexpr_leaf(true), 1 => (0i64..N as i64).prop_map(FExpr::EventVeto)]
        .prop_recursive(3, 6, 2, |inner| {
            prop_oneof![
                2 => inner.clone().prop_map(|a| FExpr::Arc(Box::new(a))),
                2 => inner.clone().prop_map(|a| FExpr::Reload(Box::new(a))),
                2 => inner.clone().prop_map(|a| FExpr::Opt(Some(Box::new(a)))),
                1 => (inner.clone(), inner.clone()).prop_map(|(a, b)| FExpr::And(Box::new(a), Box::new(b))),
                1 => inner.prop_map(|a| FExpr::Not(Box::new(a))),
            ]
        })
        .boxed()
}
fn c09_node(with_filtered: bool) -> BoxedStrategy<Node> {
    let leaf: BoxedStrategy<Node> = if with_filtered {
        prop_oneof![4 => Just(Node::Leaf), 2 => c09_filter().prop_map(|f| Node::Filtered(Box::new(Node::Leaf), f))].boxed()
    } else {
        Just(Node::Leaf).boxed()
    };
    // an absent subscriber, bare or nested in pass-through wrappers (`Some(None)`, `Box(vec![])`,
    // `vec![Some(None)]` ..): it has to stay absent
    let absent: BoxedStrategy<Node> = prop_oneof![Just(Node::Opt(None)), Just(Node::Vec(vec![]))]
        .prop_recursive(2, 4, 1, |a| prop_oneof![a.clone().prop_map(|n| Node::Opt(Some(Box::new(n)))), a.clone().prop_map(|n| Node::Boxed(Box::new(n))), a.prop_map(|n| Node::Vec(vec![n]))])
        .boxed();
    leaf.prop_recursive(4, 12, 2, move |inner| {
        let absent = absent.clone();
        prop_oneof![
            5 => (inner.clone(), inner.clone()).prop_map(|(a, b)| Node::Layered(Box::new(a), Box::new(b))),
            2 => inner.clone().prop_map(|n| Node::Boxed(Box::new(n))),
            2 => inner.clone().prop_map(|n| Node::Opt(Some(Box::new(n)))),
            2 => inner.clone().prop_map(|n| Node::Vec(vec![n])),
            2 => inner.clone().prop_map(|n| Node::Identity(Box::new(n))),
            2 => inner.clone().prop_map(|n| if n.has_filtered() { n } else { Node::Reload(Box::new(n)) }),
            2 => (inner.clone(), absent.clone()).prop_map(|(n, a)| Node::Layered(Box::new(n), Box::new(a))),
            2 => (inner, absent).prop_map(|(n, a)| Node::Layered(Box::new(a), Box::new(n))),
        ]
    })
    .prop_filter("1..=5 leaves", |n| (1..=5).contains(&n.leaves()))
    .boxed()
}

struct C09;
impl Property for C09 {
    type Case = Case;
    fn id(&self) -> &'static str {
        "C09"
    }
    fn isolation(&self) -> Isolation {
        Isolation::Thread
    }
    fn cases(&self, tier: Tier) -> u32 {
        tier.pick(40_000, 1_500_000)
    }
    fn strategy(&self, tier: Tier) -> BoxedStrategy<Case> {
        let s = || 0u8..NSLOT as u8;
        let op = prop_oneof![
            5 => (any::<u8>(), any::<bool>()).prop_map(|(m, gated)| Op::Event { m, gated }),
            4 => (any::<u8>(), s(), any::<bool>()).prop_map(|(m, slot, gated)| Op::NewSpan { m, slot, gated }),
            2 => s().prop_map(|slot| Op::Record { slot }),
            2 => (s(), s()).prop_map(|(slot, other)| Op::Follows { slot, other }),
            3 => s().prop_map(|slot| Op::Enter { slot }),
            2 => Just(Op::Exit),
            2 => (s(), s()).prop_map(|(slot, to)| Op::CloneSpan { slot, to }),
            2 => s().prop_map(|slot| Op::Close { slot }),
            1 => s().prop_map(|slot| Op::CloseUnwinding { slot }),
        ];
        let cfg = proptest::collection::vec((proptest::option::weighted(0.15, 1u8..=5), proptest::option::weighted(0.15, 0i64..N as i64)).prop_map(|(veto_level, veto_cs)| LeafCfg { veto_level, veto_cs }), 5);
        let max = tier.pick(25usize, 40usize);
        let cw = prop_oneof![2 => Just(CWrap::Plain), 1 => Just(CWrap::Boxed), 1 => Just(CWrap::Arc), 1 => Just(CWrap::Static)];
        let a = (c09_node(true), cfg.clone(), proptest::collection::vec(op.clone(), 1..max), cw.clone()).prop_map(|(tree, cfg, ops, cwrap)| Case { base: Base::Registry, cwrap, tree, cfg, ops });
        let b = (c09_node(false), cfg, proptest::collection::vec(op, 1..max), cw).prop_map(|(tree, cfg, ops, cwrap)| Case { base: Base::IdChanging, cwrap, tree, cfg, ops });
        prop_oneof![3 => a, 1 => b].boxed()
    }
    fn run(&self, case: &Case) -> Outcome {
        run_case(case)
    }
    fn rule(&self) -> String {
        "case = base collector (Registry | id-changing recorder) x collector wrapper (none|Box|Arc|Dispatch::from_static) x tree of 1-5 recording leaves with nested wrappers (Box, Some, one-element Vec, reload, Identity; None and [] inserted as siblings; for the Registry base also Filtered leaves whose filter is wrapped in Arc/reload/Some) x per-leaf veto configuration (enabled() veto by level, event_enabled() veto by field value) x <=25 (thorough <=40) ops {Event(gated by enabled or not),NewSpan,Record,Follows,Enter,Exit,CloneSpan,Close} issued through Dispatch on 60 static metadata after registering every callsite. non-trivial: at least one wrapper present and >= 8 distinct trait methods observed by the leaves; distinct by case".into()
    }
    fn assumptions(&self) -> Vec<String> {
        vec![
            "multi-element Vecs are not generated here: only the one-element Vec is a pass-through wrapper in the property (their filtering semantics are C07/C08's subject)".into(),
            "reload is placed only around subtrees without per-layer-filtered layers (documented limitation)".into(),
            "the order clause (inner before outer) is asserted for new_span/record/follows_from/event/enter/exit/close/id_change; callsite and dispatcher registration are only required exactly once (Layered asks the outer layer first by design)".into(),
        ]
    }
}

fn main() {
    vp_engine::main(C09)
}
