#![no_main]
//! C11, coverage-guided stage: bytes select grammar tokens; the oracles are c11's own
//! (`fuzz_one`). A failure whose signature is an open known finding is tolerated (the proptest
//! stage reports it); anything else aborts, which libFuzzer saves as the replay input.
use libfuzzer_sys::fuzz_target;

fuzz_target!(|data: &[u8]| {
    let out = c11lib::fuzz_one(data);
    if let vp_engine::Verdict::Fail { signature, detail } = &out.verdict {
        if vp_fuzz_known(signature) {
            return;
        }
        eprintln!("VIOLATION-SIGNATURE {signature}\nDETAIL {detail}");
        std::process::abort();
    }
});

fn vp_fuzz_known(sig: &str) -> bool {
    use std::sync::OnceLock;
    static KF: OnceLock<Vec<String>> = OnceLock::new();
    KF.get_or_init(|| vp_engine::kf::load("C11").into_iter().filter(|f| f.status == "open").map(|f| f.signature).collect()).iter().any(|k| k == sig)
}
