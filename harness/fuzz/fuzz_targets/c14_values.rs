#![no_main]
//! C14, coverage-guided stage: bytes are decoded into a (formatter options, span chain with
//! initial values and later records, events) case; the oracle is c14's own (strict JSON parse of
//! every output line against the model). Open known findings are tolerated, anything else aborts.
use libfuzzer_sys::fuzz_target;

fuzz_target!(|data: &[u8]| {
    let out = c14lib::fuzz_one(data);
    if let vp_engine::Verdict::Fail { signature, detail } = &out.verdict {
        use std::sync::OnceLock;
        static KF: OnceLock<Vec<String>> = OnceLock::new();
        let known = KF.get_or_init(|| vp_engine::kf::load("C14").into_iter().filter(|f| f.status == "open").map(|f| f.signature).collect());
        if known.iter().any(|k| k == signature) {
            return;
        }
        eprintln!("VIOLATION-SIGNATURE {signature}\nDETAIL {detail}");
        std::process::abort();
    }
});
