//! C18 — log and tracing interoperate without losing, inventing or mislabelling records.
//!
//! One fresh process per case (the `log` logger and tracing's "a collector has been set" flag
//! are one-shot process state). Three kinds of case:
//!
//! * `Bridge`: `LogTracer` (built with a generated ignore list and max level) is the process's
//!   logger. Generated log records (5 levels, targets from an alphabet that contains the ignored
//!   prefixes, look-alikes, "log" and arbitrary text; arbitrary message; file/line/module present
//!   or absent) are sent through four routes (the installed logger directly, the `log!` macro, a
//!   local `LogTracer::new()`, `tracing_log::format_trace`) while generated collectors (level
//!   filter x target filter x hint) are current (scoped, global, or none).
//!   Oracle: exactly one event at the current collector iff it accepts the RECORD's level and
//!   target (and the route's documented gates pass), none otherwise; the event carries the
//!   message, and `normalized_metadata()` gives back target, level, file, line, module path.
//! * `Emit`: a recording `log::Log` is the logger, tracing is built with its `log` feature.
//!   A history of event macros / span lifecycle steps with generated values, with the first
//!   installation of a collector (scoped, scoped-and-dropped, global, on another thread) at a
//!   generated position. Oracle: before it every step gives exactly one log record of the
//!   documented level and target whose text contains the message and every `name=value`; from
//!   the installation on, none.
//! * `Conv`: all level / level-filter conversions (bijection, order preserving).

use proptest::prelude::*;
use serde::{Deserialize, Serialize};
use std::sync::{Arc, Mutex};
use tracing_core::field::{Field, Visit};
use tracing_core::{span, Collect, Dispatch, Event, Interest, Level, LevelFilter, Metadata};
use tracing_log::{AsLog, AsTrace, LogTracer, NormalizeEvent};
use vp_engine::{Isolation, Outcome, Property, Tier};

const TARGETS: &[&str] = &["app", "app::db", "log", "ign", "ignored_crate::m", "xign", "dep::x::y", "dep::xy", "h", "hyper::proto", "", "tracing::span", "dep", "APP", "log::x", "dep::z", "app::zz", "hz", "ignore"];
// contains nested prefixes (dep / dep::x, app / app::db, h / hyper) so that several entries can
// cover the same target
const IGNORES: &[&str] = &["ign", "dep::x", "h", "app::db", "log", "dep", "app", "hyper", "i"];

fn level_of(rank: u8) -> Level {
    match rank {
        1 => Level::ERROR,
        2 => Level::WARN,
        3 => Level::INFO,
        4 => Level::DEBUG,
        _ => Level::TRACE,
    }
}
fn rank_of(l: &Level) -> u8 {
    match *l {
        Level::ERROR => 1,
        Level::WARN => 2,
        Level::INFO => 3,
        Level::DEBUG => 4,
        _ => 5,
    }
}
fn filter_of(rank: u8) -> LevelFilter {
    match rank {
        0 => LevelFilter::OFF,
        r => LevelFilter::from_level(level_of(r)),
    }
}
fn log_level_of(rank: u8) -> log::Level {
    match rank {
        1 => log::Level::Error,
        2 => log::Level::Warn,
        3 => log::Level::Info,
        4 => log::Level::Debug,
        _ => log::Level::Trace,
    }
}
fn log_rank(l: log::Level) -> u8 {
    match l {
        log::Level::Error => 1,
        log::Level::Warn => 2,
        log::Level::Info => 3,
        log::Level::Debug => 4,
        log::Level::Trace => 5,
    }
}
fn log_filter_of(rank: u8) -> log::LevelFilter {
    match rank {
        0 => log::LevelFilter::Off,
        1 => log::LevelFilter::Error,
        2 => log::LevelFilter::Warn,
        3 => log::LevelFilter::Info,
        4 => log::LevelFilter::Debug,
        _ => log::LevelFilter::Trace,
    }
}

// ---------------------------------------------------------------------------------------------
// cases

#[derive(Clone, Debug, Serialize, Deserialize, PartialEq)]
enum Tgt {
    Known(u8),
    Other(String),
}
impl Tgt {
    fn get(&self) -> &str {
        match self {
            Tgt::Known(i) => TARGETS[*i as usize % TARGETS.len()],
            Tgt::Other(s) => s,
        }
    }
}
#[derive(Clone, Copy, Debug, Serialize, Deserialize, PartialEq)]
enum Route {
    /// `log::logger().log(&record)`: the installed LogTracer
    Direct,
    /// `log::log!(target: .., level, ..)`: additionally gated by log's max level
    Macro,
    /// a local `LogTracer::new()` (no ignore list)
    Local,
    /// `tracing_log::format_trace(&record)`: only the collector decides
    Format,
}
#[derive(Clone, Debug, Serialize, Deserialize)]
struct Rec {
    level: u8,
    target: Tgt,
    msg: String,
    file: Option<String>,
    line: Option<u32>,
    module: Option<String>,
    route: Route,
}
#[derive(Clone, Copy, Debug, Serialize, Deserialize, PartialEq)]
enum Hint {
    None,
    Same,
    Higher,
}
#[derive(Clone, Debug, Serialize, Deserialize, PartialEq)]
enum TF {
    All,
    /// accepts the alphabet targets whose bit is set; other text iff the flag
    Set(u32, bool),
    NotLog,
    OnlyLog,
}
impl TF {
    fn accepts(&self, t: &str) -> bool {
        match self {
            TF::All => true,
            TF::Set(mask, others) => match TARGETS.iter().position(|x| *x == t) {
                Some(i) => mask >> i & 1 == 1,
                None => *others,
            },
            TF::NotLog => t != "log",
            TF::OnlyLog => t == "log",
        }
    }
}
#[derive(Clone, Debug, Serialize, Deserialize)]
struct Coll {
    max: u8,
    hint: Hint,
    tf: TF,
}
#[derive(Clone, Debug, Serialize, Deserialize)]
struct Seg {
    coll: Option<Coll>,
    recs: Vec<Rec>,
}
#[derive(Clone, Debug, Serialize, Deserialize)]
struct BridgeCase {
    ignore: Vec<u8>,
    max: u8,
    /// installed as the global default at the start of segment `.0`
    global: Option<(u8, Coll)>,
    segs: Vec<Seg>,
}

#[derive(Clone, Debug, Serialize, Deserialize)]
struct Vals {
    a: i64,
    u: u64,
    c: bool,
    d: i32,
    s: String,
}
#[derive(Clone, Copy, Debug, Serialize, Deserialize, PartialEq)]
enum Install {
    Scoped,
    ScopedDropped,
    Global,
    OtherThread,
    WithDefault,
}
#[derive(Clone, Debug, Serialize, Deserialize)]
enum EOp {
    Event { cs: u8, v: Vals },
    New { slot: u8, cs: u8, v: Vals },
    Enter { slot: u8 },
    Exit { slot: u8 },
    Record { slot: u8, field: u8, v: Vals },
    Drop { slot: u8 },
    /// like Drop, but guard and handle are dropped by a panic (caught) that unwinds over them
    DropUnwinding { slot: u8 },
    /// a Dispatch is created (and kept) but never installed
    DispatchOnly,
    Install(Install),
}
#[derive(Clone, Debug, Serialize, Deserialize)]
struct EmitCase {
    max: u8,
    ops: Vec<EOp>,
    /// the `log` logger is installed only before op number `.0` (ops before it run while `log` has
    /// its no-op logger: nothing can be recorded, nothing is expected)
    #[serde(default)]
    logger_late: Option<u8>,
}
#[derive(Clone, Debug, Serialize, Deserialize)]
enum Case {
    Bridge(BridgeCase),
    Emit(EmitCase),
    Conv,
}

fn fail(sig: &str, detail: String) -> Outcome {
    Outcome::fail(sig, detail)
}

// ---------------------------------------------------------------------------------------------
// bridge: log -> tracing

#[derive(Debug, Clone)]
struct SeenEvent {
    coll: u8,
    is_log: bool,
    raw_target: String,
    raw_level: u8,
    norm: Option<(String, u8, Option<String>, Option<u32>, Option<String>)>,
    message: Option<String>,
}
struct BColl {
    id: u8,
    spec: Coll,
    seen: Arc<Mutex<Vec<SeenEvent>>>,
}
struct MsgVisitor(Option<String>);
impl Visit for MsgVisitor {
    fn record_debug(&mut self, field: &Field, value: &dyn std::fmt::Debug) {
        if field.name() == "message" {
            self.0 = Some(format!("{:?}", value));
        }
    }
}
impl Collect for BColl {
    fn register_callsite(&self, _: &'static Metadata<'static>) -> Interest {
        Interest::sometimes()
    }
    fn enabled(&self, m: &Metadata<'_>) -> bool {
        rank_of(m.level()) <= self.spec.max && self.spec.tf.accepts(m.target())
    }
    fn max_level_hint(&self) -> Option<LevelFilter> {
        match self.spec.hint {
            Hint::None => None,
            Hint::Same => Some(filter_of(self.spec.max)),
            Hint::Higher => Some(filter_of((self.spec.max + 1).min(5))),
        }
    }
    fn new_span(&self, _: &span::Attributes<'_>) -> span::Id {
        span::Id::from_u64(1)
    }
    fn record(&self, _: &span::Id, _: &span::Record<'_>) {}
    fn record_follows_from(&self, _: &span::Id, _: &span::Id) {}
    fn event(&self, ev: &Event<'_>) {
        let mut mv = MsgVisitor(None);
        ev.record(&mut mv);
        let norm = ev.normalized_metadata().map(|m| (m.target().to_string(), rank_of(m.level()), m.file().map(String::from), m.line(), m.module_path().map(String::from)));
        self.seen.lock().unwrap().push(SeenEvent { coll: self.id, is_log: ev.is_log(), raw_target: ev.metadata().target().to_string(), raw_level: rank_of(ev.metadata().level()), norm, message: mv.0 });
    }
    fn enter(&self, _: &span::Id) {}
    fn exit(&self, _: &span::Id) {}
    fn current_span(&self) -> tracing_core::span::Current {
        tracing_core::span::Current::unknown()
    }
}

const MACRO_FILE: &str = file!();
const MACRO_MODULE: &str = module_path!();
#[rustfmt::skip]
fn via_macro(t: &str, l: log::Level, m: &str) -> u32 { let ln = line!(); log::log!(target: t, l, "{}", m); ln }

fn run_bridge(case: &BridgeCase) -> Outcome {
    let ignores: Vec<&str> = case.ignore.iter().map(|i| IGNORES[*i as usize % IGNORES.len()]).collect();
    let mut b = LogTracer::builder().with_max_level(log_filter_of(case.max));
    for i in &ignores {
        b = b.ignore_crate(*i);
    }
    if b.init().is_err() {
        return Outcome { verdict: vp_engine::Verdict::Inconclusive("LogTracer could not be installed".into()), nontrivial: false, classes: vec![], excluded_known: 0 };
    }
    let seen = Arc::new(Mutex::new(Vec::new()));
    let mut global: Option<Coll> = None;
    let mut next_id = 0u8;
    let (mut accepted, mut rej_ignored, mut rej_target_only, mut rej_level, mut no_coll) = (0u32, 0u32, 0u32, 0u32, 0u32);
    let mut routes = [0u32; 4];
    for (si, seg) in case.segs.iter().enumerate() {
        let mut global_id = None;
        if let Some((at, c)) = &case.global {
            if *at as usize % case.segs.len() == si && global.is_none() {
                let id = next_id;
                next_id += 1;
                if tracing_core::dispatch::set_global_default(Dispatch::new(BColl { id, spec: c.clone(), seen: seen.clone() })).is_ok() {
                    global = Some(c.clone());
                    global_id = Some(id);
                }
            }
        }
        let _ = global_id;
        let scoped = seg.coll.as_ref().map(|c| {
            let id = next_id;
            next_id += 1;
            let d = Dispatch::new(BColl { id, spec: c.clone(), seen: seen.clone() });
            (id, c.clone(), tracing_core::dispatch::set_default(&d), d)
        });
        // the collector that is current in this segment
        let current: Option<(Option<u8>, &Coll)> = match (&scoped, &global) {
            (Some((id, c, _, _)), _) => Some((Some(*id), c)),
            (None, Some(c)) => Some((None, c)),
            _ => None,
        };
        for (ri, r) in seg.recs.iter().enumerate() {
            let t = r.target.get();
            let lvl = log_level_of(r.level);
            seen.lock().unwrap().clear();
            let (mut file, mut line, mut module) = (r.file.clone(), r.line, r.module.clone());
            routes[r.route as usize] += 1;
            match r.route {
                Route::Direct => log::logger().log(&log::Record::builder().args(format_args!("{}", r.msg)).level(lvl).target(t).file(file.as_deref()).line(line).module_path(module.as_deref()).build()),
                Route::Local => log::Log::log(&LogTracer::new(), &log::Record::builder().args(format_args!("{}", r.msg)).level(lvl).target(t).file(file.as_deref()).line(line).module_path(module.as_deref()).build()),
                Route::Format => {
                    let _ = tracing_log::format_trace(&log::Record::builder().args(format_args!("{}", r.msg)).level(lvl).target(t).file(file.as_deref()).line(line).module_path(module.as_deref()).build());
                }
                Route::Macro => {
                    let ln = via_macro(t, lvl, &r.msg);
                    file = Some(MACRO_FILE.to_string());
                    line = Some(ln);
                    module = Some(MACRO_MODULE.to_string());
                }
            }
            let got: Vec<SeenEvent> = seen.lock().unwrap().drain(..).collect();
            let ignored = matches!(r.route, Route::Direct | Route::Macro) && ignores.iter().any(|p| t.starts_with(p));
            let gated = r.route == Route::Macro && r.level > case.max;
            let coll_ok = current.map(|(_, c)| r.level <= c.max && c.tf.accepts(t)).unwrap_or(false);
            let expect = coll_ok && !ignored && !gated;
            let ctx = || format!("segment {si} record {ri}: {r:?} (target {t:?}); ignore list {ignores:?}, log max level {}, current collector {:?}; events seen: {got:?}", case.max, current.map(|c| c.1));
            if expect && got.is_empty() {
                return fail("log record accepted by the current collector produced no event", ctx());
            }
            if !expect && !got.is_empty() {
                let why = if current.is_none() {
                    "no collector is current"
                } else if ignored {
                    "the target has an ignored prefix"
                } else if gated {
                    "log's max level excludes it"
                } else {
                    "the current collector rejects the record's level and target"
                };
                return fail("log record produced an event although it must not", format!("{why}; {}", ctx()));
            }
            if got.len() > 1 {
                return fail("log record produced more than one event", ctx());
            }
            match current {
                None => no_coll += 1,
                Some((_, c)) => {
                    if expect {
                        accepted += 1;
                    } else if ignored && coll_ok {
                        rej_ignored += 1;
                    } else if r.level <= c.max && !c.tf.accepts(t) {
                        rej_target_only += 1;
                    } else {
                        rej_level += 1;
                    }
                }
            }
            if let Some(e) = got.first() {
                if let Some((Some(id), _)) = current {
                    if e.coll != id {
                        return fail("the event went to a collector that is not current", ctx());
                    }
                }
                if !e.is_log {
                    return fail("bridged event is not recognised by is_log()", ctx());
                }
                if e.message.as_deref() != Some(r.msg.as_str()) {
                    return fail("bridged event does not carry the record's message", ctx());
                }
                if e.raw_level != r.level {
                    return fail("bridged event has a different level", ctx());
                }
                match &e.norm {
                    None => return fail("normalized_metadata() is None for a bridged event", ctx()),
                    Some((nt, nl, nf, nln, nm)) => {
                        if nt != t || *nl != r.level || *nf != file || *nln != line || *nm != module {
                            return fail("normalized metadata differs from the record", format!("expected target {t:?} level {} file {file:?} line {line:?} module {module:?}; {}", r.level, ctx()));
                        }
                    }
                }
                let _ = &e.raw_target;
            }
        }
        drop(scoped);
    }
    let mut classes = vec!["bridge".to_string()];
    for (n, c) in [("bridge:accepted", accepted), ("bridge:rejected_ignored_prefix", rej_ignored), ("bridge:rejected_by_target_only", rej_target_only), ("bridge:rejected_by_level", rej_level), ("bridge:no_collector", no_coll), ("bridge:route_direct", routes[0]), ("bridge:route_macro", routes[1]), ("bridge:route_local", routes[2]), ("bridge:route_format_trace", routes[3])] {
        if c > 0 {
            classes.push(n.into());
        }
    }
    if case.global.is_some() {
        classes.push("bridge:global_collector".into());
    }
    Outcome::pass(accepted > 0 && (rej_ignored > 0 || rej_target_only > 0), classes)
}

// ---------------------------------------------------------------------------------------------
// emit: tracing -> log

#[derive(Debug, Clone)]
struct LogRec {
    level: u8,
    target: String,
    text: String,
}
static LOGS: Mutex<Vec<LogRec>> = Mutex::new(Vec::new());
struct RecLogger;
static REC_LOGGER: RecLogger = RecLogger;
impl log::Log for RecLogger {
    fn enabled(&self, _: &log::Metadata<'_>) -> bool {
        true
    }
    fn log(&self, r: &log::Record<'_>) {
        LOGS.lock().unwrap().push(LogRec { level: log_rank(r.level()), target: r.target().to_string(), text: format!("{}", r.args()) });
    }
    fn flush(&self) {}
}

#[derive(Debug, Clone)]
struct Exp {
    level: u8,
    /// acceptable targets
    targets: Vec<String>,
    pieces: Vec<String>,
    /// emitted at TRACE but gated by the span's own level: only judged when log's max level is TRACE
    lifecycle_of: Option<u8>,
}
const MODULE: &str = module_path!();
const NE: u8 = 11;
const NS: u8 = 6;

fn emit_event(cs: u8, v: &Vals) -> Exp {
    let d = v.d as f64 / 8.0;
    let e = |level: u8, target: &str, pieces: Vec<String>| Exp { level, targets: vec![target.to_string()], pieces, lifecycle_of: None };
    match cs % NE {
        0 => {
            tracing::info!("{}", v.s);
            e(3, MODULE, vec![v.s.clone()])
        }
        1 => {
            tracing::error!(a = v.a, b = %v.s, "msg {}", v.a);
            e(1, MODULE, vec![format!("msg {}", v.a), format!("a={}", v.a), format!("b={}", v.s)])
        }
        2 => {
            tracing::trace!(target: "app::db", x = ?v.s, flag = v.c);
            e(5, "app::db", vec![format!("x={:?}", v.s), format!("flag={}", v.c)])
        }
        3 => {
            let s = v.s.as_str();
            tracing::event!(Level::WARN, s);
            e(2, MODULE, vec![format!("s={:?}", s)])
        }
        4 => {
            tracing::debug!(name: "named", target: "custom", u = v.u, "static message");
            e(4, "custom", vec!["static message".into(), format!("u={}", v.u)])
        }
        5 => {
            tracing::info!(parent: None, a = v.a, "orphan");
            e(3, MODULE, vec!["orphan".into(), format!("a={}", v.a)])
        }
        6 => {
            // (128-bit integers beyond the 64-bit range for large u / a)
            let wide: u128 = ((v.u as u128) << 40) | 1;
            let nwide: i128 = (v.a as i128) * (1i128 << 40);
            tracing::warn!(f = d, w = wide, n = nwide);
            e(2, MODULE, vec![format!("f={:?}", d), format!("w={}", wide), format!("n={}", nwide)])
        }
        7 => {
            tracing::debug!(http.method = %v.s, "weird name" = v.a);
            e(4, MODULE, vec![format!("http.method={}", v.s), format!("weird name={}", v.a)])
        }
        8 => {
            tracing::error!(target: "tracing::span", "{:?}", v.s);
            e(1, "tracing::span", vec![format!("{:?}", v.s)])
        }
        9 => {
            tracing::event!(target: "app", Level::DEBUG, c = v.c, u = v.u, a = v.a, s = v.s.as_str(), d = d, "all {} {}", v.u, v.c);
            e(4, "app", vec![format!("all {} {}", v.u, v.c), format!("c={}", v.c), format!("u={}", v.u), format!("a={}", v.a), format!("s={:?}", v.s), format!("d={:?}", d)])
        }
        _ => {
            let sp = tracing::Span::none();
            tracing::trace!(parent: &sp, a = v.a, e = tracing::field::Empty);
            e(5, MODULE, vec![format!("a={}", v.a)])
        }
    }
}

struct SpanInfo {
    level: u8,
    target: &'static str,
    name: &'static str,
}
fn new_span(cs: u8, v: &Vals) -> (tracing::Span, SpanInfo, Exp) {
    let life = "tracing::span".to_string();
    let mk = |level: u8, target: &'static str, name: &'static str, new_targets: Vec<String>, mut pieces: Vec<String>| {
        pieces.push(name.to_string());
        (SpanInfo { level, target, name }, Exp { level, targets: new_targets, pieces, lifecycle_of: None })
    };
    match cs % NS {
        0 => {
            let s = tracing::info_span!("s0");
            let (i, e) = mk(3, MODULE, "s0", vec![life], vec![]);
            (s, i, e)
        }
        1 => {
            let s = tracing::span!(Level::DEBUG, "s1", a = v.a, b = %v.s);
            let (i, e) = mk(4, MODULE, "s1", vec![MODULE.into()], vec![format!("a={}", v.a), format!("b={}", v.s)]);
            (s, i, e)
        }
        2 => {
            let s = tracing::error_span!(target: "app", "s2", later = tracing::field::Empty, x = v.c);
            let (i, e) = mk(1, "app", "s2", vec!["app".into()], vec![format!("x={}", v.c)]);
            (s, i, e)
        }
        3 => {
            // only an Empty value: the record has no text for it; either target is fine
            let s = tracing::trace_span!("s3", only = tracing::field::Empty);
            let (i, e) = mk(5, MODULE, "s3", vec![life, MODULE.into()], vec![]);
            (s, i, e)
        }
        4 => {
            let s = tracing::warn_span!(parent: None, "s4", u = v.u);
            let (i, e) = mk(2, MODULE, "s4", vec![MODULE.into()], vec![format!("u={}", v.u)]);
            (s, i, e)
        }
        _ => {
            let s = tracing::span!(target: "tracing::span::active", Level::TRACE, "s 5", q = ?v.s);
            let (i, e) = mk(5, "tracing::span::active", "s 5", vec!["tracing::span::active".into()], vec![format!("q={:?}", v.s)]);
            (s, i, e)
        }
    }
}

enum SlotState {
    Idle(tracing::Span),
    Entered(tracing::span::EnteredSpan),
}
struct Quiet;
impl Collect for Quiet {
    fn enabled(&self, _: &Metadata<'_>) -> bool {
        true
    }
    fn new_span(&self, _: &span::Attributes<'_>) -> span::Id {
        span::Id::from_u64(7)
    }
    fn record(&self, _: &span::Id, _: &span::Record<'_>) {}
    fn record_follows_from(&self, _: &span::Id, _: &span::Id) {}
    fn event(&self, _: &Event<'_>) {}
    fn enter(&self, _: &span::Id) {}
    fn exit(&self, _: &span::Id) {}
    fn current_span(&self) -> tracing_core::span::Current {
        tracing_core::span::Current::unknown()
    }
}

/// the slot an op refers to: the named one if it is in the wanted state, else the first that is
fn steer(slots: &[Option<(SlotState, SpanInfo)>], slot: u8, want: impl Fn(&Option<(SlotState, SpanInfo)>) -> bool) -> usize {
    let k = slot as usize % 3;
    if want(&slots[k]) {
        return k;
    }
    (0..3).find(|i| want(&slots[*i])).unwrap_or(k)
}

fn run_emit(case: &EmitCase) -> Outcome {
    let install_at = case.logger_late.map(|k| k as usize % case.ops.len().max(1)).unwrap_or(0);
    let mut logger_installed = false;
    let mut slots: Vec<Option<(SlotState, SpanInfo)>> = vec![None, None, None];
    let mut installed = false;
    let mut guards = Vec::new();
    let mut kept = Vec::new();
    let (mut before, mut after, mut dispatch_only) = (0u32, 0u32, false);
    let mut kinds = std::collections::BTreeSet::new();
    for (oi, op) in case.ops.iter().enumerate() {
        if !logger_installed && oi >= install_at {
            if log::set_logger(&REC_LOGGER).is_err() {
                return Outcome { verdict: vp_engine::Verdict::Inconclusive("logger could not be installed".into()), nontrivial: false, classes: vec![], excluded_known: 0 };
            }
            log::set_max_level(log_filter_of(case.max));
            logger_installed = true;
            if oi > 0 {
                kinds.insert("emit:logger_installed_after_first_ops");
            }
        }
        LOGS.lock().unwrap().clear();
        let mut exp: Vec<Exp> = Vec::new();
        let life = |info: &SpanInfo, target: &str| Exp { level: 5, targets: vec![target.to_string()], pieces: vec![info.name.to_string()], lifecycle_of: Some(info.level) };
        match op {
            EOp::Event { cs, v } => {
                exp.push(emit_event(*cs, v));
                kinds.insert("emit:event");
            }
            EOp::New { slot, cs, v } => {
                let k = steer(&slots, *slot, |s| s.is_none());
                if slots[k].is_none() {
                    let (s, info, e) = new_span(*cs, v);
                    exp.push(e);
                    slots[k] = Some((SlotState::Idle(s), info));
                    kinds.insert("emit:span_new");
                }
            }
            EOp::Enter { slot } => {
                let k = steer(&slots, *slot, |s| matches!(s, Some((SlotState::Idle(_), _))));
                if let Some((SlotState::Idle(_), _)) = &slots[k] {
                    let (st, info) = slots[k].take().unwrap();
                    if let SlotState::Idle(s) = st {
                        exp.push(life(&info, "tracing::span::active"));
                        slots[k] = Some((SlotState::Entered(s.entered()), info));
                        kinds.insert("emit:span_enter");
                    }
                }
            }
            EOp::Exit { slot } => {
                let k = steer(&slots, *slot, |s| matches!(s, Some((SlotState::Entered(_), _))));
                if let Some((SlotState::Entered(_), _)) = &slots[k] {
                    let (st, info) = slots[k].take().unwrap();
                    if let SlotState::Entered(s) = st {
                        exp.push(life(&info, "tracing::span::active"));
                        slots[k] = Some((SlotState::Idle(s.exit()), info));
                        kinds.insert("emit:span_exit");
                    }
                }
            }
            EOp::Record { slot, field, v } => {
                let k = steer(&slots, *slot, |s| s.is_some());
                if let Some((st, info)) = &slots[k] {
                    let sp: &tracing::Span = match st {
                        SlotState::Idle(s) => s,
                        SlotState::Entered(s) => s,
                    };
                    // one of the span's own fields, or (field == 3) one it does not have
                    let own: Vec<&'static str> = sp.metadata().map(|m| m.fields().iter().map(|f| f.name()).collect()).unwrap_or_default();
                    let name = if *field == 3 || own.is_empty() { "nosuch" } else { own[*field as usize % own.len()] };
                    let exists = sp.metadata().map(|m| m.fields().field(name).is_some()).unwrap_or(false);
                    sp.record(name, v.a);
                    if exists {
                        exp.push(Exp { level: info.level, targets: vec![info.target.to_string()], pieces: vec![info.name.to_string(), format!("{}={}", name, v.a)], lifecycle_of: None });
                        kinds.insert("emit:span_record");
                    }
                }
            }
            EOp::Drop { slot } => {
                let k = steer(&slots, *slot, |s| s.is_some());
                if let Some((st, info)) = slots[k].take() {
                    if let SlotState::Entered(_) = st {
                        exp.push(life(&info, "tracing::span::active"));
                    }
                    exp.push(life(&info, "tracing::span"));
                    drop(st);
                    kinds.insert("emit:span_close");
                }
            }
            EOp::DropUnwinding { slot } => {
                let k = steer(&slots, *slot, |s| s.is_some());
                if let Some((st, info)) = slots[k].take() {
                    if let SlotState::Entered(_) = st {
                        exp.push(life(&info, "tracing::span::active"));
                    }
                    exp.push(life(&info, "tracing::span"));
                    let r = std::panic::catch_unwind(std::panic::AssertUnwindSafe(move || {
                        let _dropped_by_the_unwind = st;
                        panic!("scripted panic over a span");
                    }));
                    assert!(r.is_err());
                    kinds.insert("emit:span_closed_by_unwinding");
                }
            }
            EOp::DispatchOnly => {
                kept.push(Dispatch::new(Quiet));
                dispatch_only = true;
            }
            EOp::Install(kind) => {
                match kind {
                    Install::Scoped => guards.push(tracing_core::dispatch::set_default(&Dispatch::new(Quiet))),
                    Install::ScopedDropped => drop(tracing_core::dispatch::set_default(&Dispatch::new(Quiet))),
                    Install::Global => {
                        let _ = tracing_core::dispatch::set_global_default(Dispatch::new(Quiet));
                    }
                    Install::OtherThread => {
                        let _ = std::thread::spawn(|| drop(tracing_core::dispatch::set_default(&Dispatch::new(Quiet)))).join();
                    }
                    Install::WithDefault => tracing_core::dispatch::with_default(&Dispatch::new(Quiet), || {}),
                }
                if !installed {
                    kinds.insert(match kind {
                        Install::Scoped => "emit:first_install_scoped",
                        Install::ScopedDropped => "emit:first_install_scoped_then_dropped",
                        Install::Global => "emit:first_install_global",
                        Install::OtherThread => "emit:first_install_on_other_thread",
                        Install::WithDefault => "emit:first_install_with_default",
                    });
                }
                installed = true;
            }
        }
        let got: Vec<LogRec> = LOGS.lock().unwrap().drain(..).collect();
        let ctx = || format!("op {oi}: {op:?}; log max level {}; a collector {} been installed; expected {exp:?}; log records: {got:?}", case.max, if installed { "has" } else { "has not" });
        if !logger_installed {
            continue; // nothing can be recorded yet
        }
        if installed {
            if !exp.is_empty() {
                after += 1;
            }
            if !got.is_empty() {
                return fail("log record emitted after a collector had been installed", ctx());
            }
            continue;
        }
        if !exp.is_empty() {
            before += 1;
        }
        // match expected steps against records in order
        let mut gi = 0usize;
        for e in &exp {
            let judged_level = e.lifecycle_of.unwrap_or(e.level);
            let must = match e.lifecycle_of {
                // lifecycle records are TRACE records gated by the span's level: only judged
                // strictly when TRACE records are wanted at all
                Some(_) => {
                    if case.max >= 5 {
                        Some(true)
                    } else if judged_level > case.max {
                        Some(false)
                    } else {
                        None
                    }
                }
                None => Some(e.level <= case.max),
            };
            let matches = |g: &LogRec| g.level == e.level && e.targets.iter().any(|t| *t == g.target) && e.pieces.iter().all(|p| g.text.contains(p.as_str()));
            match must {
                Some(true) => {
                    match got.get(gi) {
                        None => return fail("no log record for an event / span step although no collector was ever installed", ctx()),
                        Some(g) if !matches(g) => return fail("log record has the wrong level, target or text", ctx()),
                        _ => {}
                    }
                    gi += 1;
                }
                Some(false) => {}
                None => {
                    if got.get(gi).map(|g| matches(g)).unwrap_or(false) {
                        gi += 1;
                    }
                }
            }
        }
        if gi != got.len() {
            return fail("more log records than events / span steps", ctx());
        }
    }
    drop(guards);
    let mut classes: Vec<String> = vec!["emit".into()];
    classes.extend(kinds.iter().map(|s| s.to_string()));
    if dispatch_only {
        classes.push("emit:dispatch_created_but_not_installed".into());
    }
    if case.max < 5 {
        classes.push("emit:log_max_level_below_trace".into());
    }
    Outcome::pass(before > 0 && after > 0, classes)
}

// ---------------------------------------------------------------------------------------------
// conversions

fn run_conv() -> Outcome {
    let tl = [Level::ERROR, Level::WARN, Level::INFO, Level::DEBUG, Level::TRACE];
    let ll = [log::Level::Error, log::Level::Warn, log::Level::Info, log::Level::Debug, log::Level::Trace];
    let tf = [LevelFilter::OFF, LevelFilter::ERROR, LevelFilter::WARN, LevelFilter::INFO, LevelFilter::DEBUG, LevelFilter::TRACE];
    let lf = [log::LevelFilter::Off, log::LevelFilter::Error, log::LevelFilter::Warn, log::LevelFilter::Info, log::LevelFilter::Debug, log::LevelFilter::Trace];
    for i in 0..5 {
        if tl[i].as_log() != ll[i] || ll[i].as_trace() != tl[i] || tl[i].as_log().as_trace() != tl[i] || ll[i].as_trace().as_log() != ll[i] {
            return fail("level conversion is not the documented bijection", format!("{:?} <-> {:?}: as_log {:?}, as_trace {:?}", tl[i], ll[i], tl[i].as_log(), ll[i].as_trace()));
        }
        if tracing::level_to_log!(tl[i]) != ll[i] {
            return fail("tracing's own level_to_log differs from AsLog", format!("{:?}", tl[i]));
        }
        for j in 0..5 {
            if tl[i].cmp(&tl[j]) != tl[i].as_log().cmp(&tl[j].as_log()) || ll[i].cmp(&ll[j]) != ll[i].as_trace().cmp(&ll[j].as_trace()) {
                return fail("level conversion does not preserve the order", format!("{:?} vs {:?}", tl[i], tl[j]));
            }
        }
    }
    for i in 0..6 {
        if tf[i].as_log() != lf[i] || lf[i].as_trace() != tf[i] {
            return fail("level filter conversion is not the documented bijection", format!("{:?} <-> {:?}", tf[i], lf[i]));
        }
        for j in 0..6 {
            if tf[i].cmp(&tf[j]) != tf[i].as_log().cmp(&tf[j].as_log()) || lf[i].cmp(&lf[j]) != lf[i].as_trace().cmp(&lf[j].as_trace()) {
                return fail("level filter conversion does not preserve the order", format!("{:?} vs {:?}", tf[i], tf[j]));
            }
        }
        for j in 0..5 {
            if (tl[j] <= tf[i]) != (ll[j] <= lf[i]) {
                return fail("level <= filter differs between log and tracing", format!("{:?} vs {:?}", tl[j], tf[i]));
            }
        }
    }
    // metadata conversions keep level and target
    for i in 0..5 {
        let lm = log::Metadata::builder().level(ll[i]).target("some::target").build();
        let tm = lm.as_trace();
        if tm.level() != &tl[i] || tm.target() != "some::target" {
            return fail("log::Metadata::as_trace changes level or target", format!("{:?}", ll[i]));
        }
        let back = tm.as_log();
        if back.level() != ll[i] || back.target() != "some::target" {
            return fail("Metadata::as_log changes level or target", format!("{:?}", ll[i]));
        }
    }
    Outcome::pass(true, vec!["conv".into()])
}

// ---------------------------------------------------------------------------------------------

struct C18;

fn vals() -> impl Strategy<Value = Vals> {
    let s = prop_oneof![
        3 => "[a-z]{0,6}",
        2 => "[ -~]{0,10}",
        2 => "\\PC{0,8}",
        1 => Just("a=1 b=\"x\"; -> s1;".to_string()),
        1 => Just("line1\nline2\t\"q\" \\".to_string()),
    ];
    (prop_oneof![any::<i64>(), -3i64..10], prop_oneof![any::<u64>(), 0u64..5], any::<bool>(), any::<i32>(), s).prop_map(|(a, u, c, d, s)| Vals { a, u, c, d, s })
}

impl Property for C18 {
    type Case = Case;
    fn id(&self) -> &'static str {
        "C18"
    }
    fn isolation(&self) -> Isolation {
        Isolation::Child
    }
    fn cases(&self, tier: Tier) -> u32 {
        tier.pick(30_000, 600_000)
    }
    fn strategy(&self, tier: Tier) -> BoxedStrategy<Case> {
        let nt = TARGETS.len() as u8;
        let tgt = prop_oneof![
            8 => (0..nt).prop_map(Tgt::Known),
            1 => "[a-z:]{0,8}".prop_map(Tgt::Other),
            1 => "\\PC{0,6}".prop_map(Tgt::Other),
            // an ignored prefix followed by arbitrary text / preceded by something
            1 => (0..IGNORES.len(), "[a-z:_]{0,5}").prop_map(|(i, s)| Tgt::Other(format!("{}{}", IGNORES[i], s))),
            1 => (0..IGNORES.len(), "[a-z]{1,2}").prop_map(|(i, s)| Tgt::Other(format!("{}{}", s, IGNORES[i]))),
        ];
        let msg = prop_oneof![3 => "[a-z ]{0,12}", 2 => "[ -~]{0,16}", 2 => "\\PC{0,10}", 1 => Just("multi\nline \"quoted\" {} {:?}".to_string()), 1 => Just(String::new())];
        let optstr = || proptest::option::weighted(0.6, prop_oneof!["[a-z/]{1,8}\\.rs", "[a-z:]{0,8}", "\\PC{0,5}"]);
        let line = proptest::option::weighted(0.6, prop_oneof![any::<u32>(), 0u32..300, Just(u32::MAX), Just(0)]);
        let route = prop_oneof![5 => Just(Route::Direct), 3 => Just(Route::Macro), 1 => Just(Route::Local), 1 => Just(Route::Format)];
        let rec = (1u8..6, tgt, msg, optstr(), line, optstr(), route).prop_map(|(level, target, msg, file, line, module, route)| Rec { level, target, msg, file, line, module, route });
        let tf = prop_oneof![
            2 => Just(TF::All),
            4 => (any::<u32>(), any::<bool>()).prop_map(|(m, o)| TF::Set(m, o)),
            1 => Just(TF::NotLog),
            1 => Just(TF::OnlyLog),
        ];
        let coll = (prop_oneof![3 => 0u8..6, 2 => Just(5u8)], prop_oneof![Just(Hint::None), Just(Hint::Same), Just(Hint::Higher)], tf).prop_map(|(max, hint, tf)| Coll { max, hint, tf });
        let nrec = tier.pick(10usize, 16usize);
        let seg = (proptest::option::weighted(0.85, coll.clone()), proptest::collection::vec(rec, 1..nrec)).prop_map(|(coll, recs)| Seg { coll, recs });
        let bridge = (
            proptest::collection::vec(0u8..IGNORES.len() as u8, 0..5),
            prop_oneof![3 => Just(5u8), 2 => 0u8..6],
            proptest::option::weighted(0.3, (0u8..4, coll)),
            proptest::collection::vec(seg, 1..5),
        )
            .prop_map(|(ignore, max, global, segs)| Case::Bridge(BridgeCase { ignore, max, global, segs }));

        let slot = || 0u8..3;
        let install = prop_oneof![Just(Install::Scoped), Just(Install::ScopedDropped), Just(Install::Global), Just(Install::OtherThread), Just(Install::WithDefault)];
        let eop = prop_oneof![
            6 => (0..NE, vals()).prop_map(|(cs, v)| EOp::Event { cs, v }),
            5 => (slot(), 0..NS, vals()).prop_map(|(slot, cs, v)| EOp::New { slot, cs, v }),
            4 => slot().prop_map(|slot| EOp::Enter { slot }),
            3 => slot().prop_map(|slot| EOp::Exit { slot }),
            2 => (slot(), 0u8..4, vals()).prop_map(|(slot, field, v)| EOp::Record { slot, field, v }),
            3 => slot().prop_map(|slot| EOp::Drop { slot }),
            1 => slot().prop_map(|slot| EOp::DropUnwinding { slot }),
            1 => Just(EOp::DispatchOnly),
        ];
        let nops = tier.pick(14usize, 24usize);
        // the first installation sits at a generated position inside the history (or is absent)
        let emit = ((prop_oneof![3 => Just(5u8), 2 => 0u8..6], proptest::option::weighted(0.3, 1u8..6)), proptest::collection::vec(eop.clone(), 1..nops), proptest::option::weighted(0.8, (install, proptest::collection::vec(prop_oneof![8 => eop, 1 => Just(EOp::Install(Install::ScopedDropped))], 1..nops)))).prop_map(|((max, logger_late), mut ops, tail)| {
            if let Some((k, rest)) = tail {
                ops.push(EOp::Install(k));
                ops.extend(rest);
            }
            Case::Emit(EmitCase { max, ops, logger_late })
        });
        prop_oneof![bridge, emit].boxed()
    }
    fn run(&self, case: &Case) -> Outcome {
        match case {
            Case::Bridge(b) => run_bridge(b),
            Case::Emit(e) => run_emit(e),
            Case::Conv => run_conv(),
        }
    }
    fn enumerate(&self, _tier: Tier, shard: u32, _of: u32, rec: &mut vp_engine::runner::Rec<'_, Self>) {
        if shard == 0 {
            rec.eval(&Case::Conv);
        }
    }
    fn rule(&self) -> String {
        "one fresh process per case; half of the cases `bridge`: LogTracer built with 0-4 ignored prefixes (from a set with nested ones) and a generated log max level, 1-4 segments each with an optional scoped collector (level filter 0-5 x hint {none, same, higher} x target filter {all, subset of a 19-target alphabet, not \"log\", only \"log\"}) and optionally a global collector installed at a generated segment, 1-9 (thorough 15) records per segment (5 levels; targets from the alphabet incl. ignored prefixes, look-alikes, \"log\", arbitrary text; arbitrary message; file/line/module present or absent) through 4 routes {installed logger, log! macro, local LogTracer::new(), format_trace}; other half `emit`: generated log max level, the recording logger installed at the start or (30 %) only after the first 1-5 ops, <= 13 (thorough 23) ops {11 event macro call sites, 6 span call sites x new/enter/exit/record/drop over 3 slots, create-a-Dispatch-without-installing} then (80 %) a first installation {scoped, scoped-and-dropped, global, on another thread, with_default} followed by more ops; plus the complete enumeration of level / level-filter / metadata conversions. non-trivial: bridge = some record accepted and some rejected because of an ignored prefix or by its target only; emit = log-producing steps on both sides of the first installation; distinct by case".into()
    }
    fn assumptions(&self) -> Vec<String> {
        vec![
            "collector hints are consistent with their enabled() (hint >= highest accepted level), as every real collector's is; LogTracer's LevelFilter::current() gate therefore never rejects what the current collector accepts".into(),
            "the ignore list and log's max level are configuration of the bridge: a record with an ignored prefix (routes through the installed LogTracer) or above log's max level (log! macro route) must produce no event".into(),
            "tracing -> log: the recording logger's enabled() is always true; with log's max level below TRACE span enter/exit/close records (TRACE records gated by the span's own level) are tolerated either way; text is judged by containment of the message and of every name=value, not by exact format".into(),
            "a span whose only value is field::Empty may log its creation under either the span's target or tracing::span".into(),
        ]
    }
    fn child_timeout_s(&self) -> u64 {
        20
    }
}

fn main() {
    vp_engine::main(C18)
}
