//! Building blocks shared by the layer/filter checks (C07, C08, C09, C12): a serialisable
//! filter-expression and stack-shape language, builders that turn a description into real
//! boxed `Filter`s / `Subscribe`rs, the reference evaluator written from the documented
//! semantics, and a recording leaf layer.

pub mod universe;

use proptest::prelude::*;
use serde::{Deserialize, Serialize};
use std::sync::{Arc, Mutex};
use tracing_core::{span, Event, Metadata};
use tracing_subscriber::filter::{dynamic_filter_fn, filter_fn, EnvFilter, FilterExt, LevelFilter, Targets};
use tracing_subscriber::registry::{LookupSpan, Registry};
use tracing_subscriber::subscribe::{Context, Filter, Subscribe};

pub const TARGETS: [&str; 3] = ["a", "a::b", "c"];
pub const LEVELS: [u8; 3] = [1, 3, 5];

/// (target prefix, most verbose level rank it enables); "" = default / bare level
pub type Tab = Vec<(String, u8)>;

/// documented semantics of a target table: the longest prefix that matches decides; no match
/// = disabled
pub fn tab_accepts(tab: &Tab, level: u8, target: &str) -> bool {
    let mut best: Option<(usize, u8)> = None;
    for (p, r) in tab {
        if target.starts_with(p.as_str()) {
            match best {
                Some((l, _)) if l > p.len() => {}
                // equal prefixes: the later entry replaces the earlier one
                _ => best = Some((p.len(), *r)),
            }
        }
    }
    matches!(best, Some((_, r)) if level <= r)
}
pub fn tab_to_targets(tab: &Tab) -> Targets {
    let mut t = Targets::new();
    for (p, r) in tab {
        if p.is_empty() {
            t = t.with_default(vp_rec::filter_of_rank(*r));
        } else {
            t = t.with_target(p.clone(), vp_rec::filter_of_rank(*r));
        }
    }
    t
}
pub fn tab_to_env_string(tab: &Tab) -> String {
    let names = ["off", "error", "warn", "info", "debug", "trace"];
    tab.iter().map(|(p, r)| if p.is_empty() { names[*r as usize].to_string() } else { format!("{}={}", p, names[*r as usize]) }).collect::<Vec<_>>().join(",")
}
/// tables are normalised so that a prefix occurs once (duplicates are C11's subject)
pub fn tab_strategy() -> BoxedStrategy<Tab> {
    proptest::collection::vec((proptest::sample::select(vec!["", "a", "a::b", "c"]), 0u8..=5), 1..4)
        .prop_map(|v| {
            let mut out: Tab = vec![];
            for (p, r) in v {
                if !out.iter().any(|(q, _)| q == p) {
                    out.push((p.to_string(), r));
                }
            }
            out
        })
        .boxed()
}

#[derive(Clone, Debug, Serialize, Deserialize, PartialEq)]
pub enum FExpr {
    Level(u8),
    Targets(Tab),
    Env(Tab),
    /// `filter_fn` over (level mask bit r-1, target mask bit i)
    StaticFn { levels: u8, targets: u8 },
    /// `dynamic_filter_fn(|_, cx| cx.lookup_current().is_some())`
    HasCurrent,
    /// `filter_fn` as StaticFn, with `with_max_level_hint(hint)`; the hint is a true upper bound
    FnHint { levels: u8, targets: u8, hint: u8 },
    /// `dynamic_filter_fn(|m, cx| level in mask && cx.lookup_current().is_some())` with a true
    /// upper-bound hint
    DynHint { levels: u8, hint: u8 },
    /// EnvFilter built from raw directives (may contain span-scoped ones); no reference
    /// semantics here (C11 has them), only usable where the oracle is implementation-relative
    EnvRaw(String),
    /// `Option<F>`: None allows everything
    Opt(Option<Box<FExpr>>),
    /// the filter behind a `reload::Subscriber`
    Reload(Box<FExpr>),
    /// `Arc<dyn Filter>`
    Arc(Box<FExpr>),
    /// custom filter: accepts all metadata, but its `event_enabled` rejects events whose
    /// `cs` field has this value (C09 only; the reference `accepts` ignores the veto)
    EventVeto(i64),
    And(Box<FExpr>, Box<FExpr>),
    Or(Box<FExpr>, Box<FExpr>),
    Not(Box<FExpr>),
}

impl FExpr {
    /// reference semantics; `has_current` = a span is current in the view of the layer that
    /// owns this filter
    pub fn accepts(&self, level: u8, target: &str, has_current: bool) -> bool {
        match self {
            FExpr::Level(r) => level <= *r,
            FExpr::Targets(t) | FExpr::Env(t) => tab_accepts(t, level, target),
            FExpr::StaticFn { levels, targets } => {
                let ti = TARGETS.iter().position(|x| *x == target).unwrap_or(7);
                levels >> (level - 1) & 1 == 1 && targets >> ti & 1 == 1
            }
            FExpr::HasCurrent => has_current,
            FExpr::FnHint { levels, targets, .. } => FExpr::StaticFn { levels: *levels, targets: *targets }.accepts(level, target, has_current),
            FExpr::DynHint { levels, .. } => levels >> (level - 1) & 1 == 1 && has_current,
            FExpr::EnvRaw(_) => panic!("EnvRaw has no reference semantics in vp-sub"),
            FExpr::Opt(None) | FExpr::EventVeto(_) => true,
            FExpr::Opt(Some(a)) | FExpr::Reload(a) | FExpr::Arc(a) => a.accepts(level, target, has_current),
            FExpr::And(a, b) => a.accepts(level, target, has_current) && b.accepts(level, target, has_current),
            FExpr::Or(a, b) => a.accepts(level, target, has_current) || b.accepts(level, target, has_current),
            FExpr::Not(a) => !a.accepts(level, target, has_current),
        }
    }
    pub fn is_dynamic(&self) -> bool {
        match self {
            FExpr::HasCurrent | FExpr::DynHint { .. } | FExpr::EnvRaw(_) => true,
            FExpr::And(a, b) | FExpr::Or(a, b) => a.is_dynamic() || b.is_dynamic(),
            FExpr::Not(a) | FExpr::Reload(a) | FExpr::Arc(a) | FExpr::Opt(Some(a)) => a.is_dynamic(),
            _ => false,
        }
    }
    pub fn leaf_kinds(&self, out: &mut Vec<&'static str>) {
        match self {
            FExpr::Level(_) => out.push("level"),
            FExpr::Targets(_) => out.push("targets"),
            FExpr::Env(_) => out.push("env"),
            FExpr::StaticFn { .. } => out.push("fn"),
            FExpr::HasCurrent => out.push("dynfn"),
            FExpr::FnHint { .. } => out.push("fn_hint"),
            FExpr::DynHint { .. } => out.push("dynfn_hint"),
            FExpr::EnvRaw(_) => out.push("env_raw"),
            FExpr::Opt(None) => out.push("opt_none"),
            FExpr::EventVeto(_) => out.push("event_veto"),
            FExpr::Opt(Some(a)) => {
                out.push("opt");
                a.leaf_kinds(out)
            }
            FExpr::Reload(a) => {
                out.push("reload");
                a.leaf_kinds(out)
            }
            FExpr::Arc(a) => {
                out.push("arc");
                a.leaf_kinds(out)
            }
            FExpr::And(a, b) | FExpr::Or(a, b) => {
                a.leaf_kinds(out);
                b.leaf_kinds(out)
            }
            FExpr::Not(a) => a.leaf_kinds(out),
        }
    }
    pub fn has_combinator(&self) -> bool {
        matches!(self, FExpr::And(..) | FExpr::Or(..) | FExpr::Not(..))
    }
}

pub type BF = Box<dyn Filter<Registry> + Send + Sync>;
pub type BS = Box<dyn Subscribe<Registry> + Send + Sync>;

pub fn build_filter(f: &FExpr) -> BF {
    match f {
        FExpr::Level(r) => Box::new(vp_rec::filter_of_rank(*r)),
        FExpr::Targets(t) => Box::new(tab_to_targets(t)),
        FExpr::Env(t) => Box::new(EnvFilter::new(tab_to_env_string(t))),
        FExpr::StaticFn { levels, targets } => {
            let (l, t) = (*levels, *targets);
            Box::new(filter_fn(move |m: &Metadata<'_>| {
                let ti = TARGETS.iter().position(|x| *x == m.target()).unwrap_or(7);
                l >> (vp_rec::rank(m.level()) - 1) & 1 == 1 && t >> ti & 1 == 1
            }))
        }
        FExpr::HasCurrent => Box::new(dynamic_filter_fn(|_m: &Metadata<'_>, cx: &Context<'_, Registry>| cx.lookup_current().is_some())),
        FExpr::FnHint { levels, targets, hint } => {
            let (l, t) = (*levels, *targets);
            Box::new(
                filter_fn(move |m: &Metadata<'_>| {
                    let ti = TARGETS.iter().position(|x| *x == m.target()).unwrap_or(7);
                    l >> (vp_rec::rank(m.level()) - 1) & 1 == 1 && t >> ti & 1 == 1
                })
                .with_max_level_hint(vp_rec::filter_of_rank(*hint)),
            )
        }
        FExpr::DynHint { levels, hint } => {
            let l = *levels;
            Box::new(
                dynamic_filter_fn(move |m: &Metadata<'_>, cx: &Context<'_, Registry>| l >> (vp_rec::rank(m.level()) - 1) & 1 == 1 && cx.lookup_current().is_some())
                    .with_max_level_hint(vp_rec::filter_of_rank(*hint)),
            )
        }
        FExpr::EnvRaw(d) => Box::new(EnvFilter::new(d)),
        FExpr::Opt(None) => Box::new(None::<BF>),
        FExpr::EventVeto(cs) => Box::new(EventVetoFilter(*cs)),
        FExpr::Opt(Some(a)) => Box::new(Some(build_filter(a))),
        FExpr::Reload(a) => Box::new(tracing_subscriber::reload::Subscriber::new(build_filter(a)).0),
        FExpr::Arc(a) => {
            let b: std::sync::Arc<dyn Filter<Registry> + Send + Sync> = std::sync::Arc::from(build_filter(a));
            Box::new(b)
        }
        FExpr::And(a, b) => Box::new(build_filter(a).and(build_filter(b))),
        FExpr::Or(a, b) => Box::new(build_filter(a).or(build_filter(b))),
        FExpr::Not(a) => Box::new(build_filter(a).not()),
    }
}

pub struct EventVetoFilter(pub i64);
impl<S> Filter<S> for EventVetoFilter {
    fn enabled(&self, _: &Metadata<'_>, _: &Context<'_, S>) -> bool {
        true
    }
    fn event_enabled(&self, e: &Event<'_>, _: &Context<'_, S>) -> bool {
        let mut v = CsVisitor(-1);
        e.record(&mut v);
        v.0 != self.0
    }
}

pub fn fexpr_leaf(with_dynamic: bool) -> BoxedStrategy<FExpr> {
    let mut v: Vec<(u32, BoxedStrategy<FExpr>)> = vec![
        (4, (0u8..=5).prop_map(FExpr::Level).boxed()),
        (3, tab_strategy().prop_map(FExpr::Targets).boxed()),
        (2, tab_strategy().prop_map(FExpr::Env).boxed()),
        (2, (0u8..32, 0u8..8).prop_map(|(levels, targets)| FExpr::StaticFn { levels, targets }).boxed()),
    ];
    if with_dynamic {
        v.push((2, Just(FExpr::HasCurrent).boxed()));
    }
    proptest::strategy::Union::new_weighted(v).boxed()
}
pub fn fexpr_strategy(depth: u32, with_dynamic: bool) -> BoxedStrategy<FExpr> {
    fexpr_leaf(with_dynamic)
        .prop_recursive(depth, 8, 2, |inner| {
            prop_oneof![
                (inner.clone(), inner.clone()).prop_map(|(a, b)| FExpr::And(Box::new(a), Box::new(b))),
                (inner.clone(), inner.clone()).prop_map(|(a, b)| FExpr::Or(Box::new(a), Box::new(b))),
                inner.prop_map(|a| FExpr::Not(Box::new(a))),
            ]
        })
        .boxed()
}

/// a global filter used as a layer of its own
#[derive(Clone, Debug, Serialize, Deserialize, PartialEq)]
pub enum GFilter {
    Level(u8),
    Targets(Tab),
    Env(Tab),
    StaticFn { levels: u8, targets: u8 },
    /// `dynamic_filter_fn(|m, _| level in mask)` used as a layer: decides like StaticFn, but its
    /// callsite interest is `sometimes` (and it publishes no max-level hint)
    DynFn { levels: u8 },
}
impl GFilter {
    pub fn as_fexpr(&self) -> FExpr {
        match self {
            GFilter::Level(r) => FExpr::Level(*r),
            GFilter::Targets(t) => FExpr::Targets(t.clone()),
            GFilter::Env(t) => FExpr::Env(t.clone()),
            GFilter::StaticFn { levels, targets } => FExpr::StaticFn { levels: *levels, targets: *targets },
            GFilter::DynFn { levels } => FExpr::StaticFn { levels: *levels, targets: 0xff },
        }
    }
    pub fn accepts(&self, level: u8, target: &str) -> bool {
        self.as_fexpr().accepts(level, target, false)
    }
    pub fn build(&self) -> BS {
        match self {
            GFilter::Level(r) => Box::new(vp_rec::filter_of_rank(*r)),
            GFilter::Targets(t) => Box::new(tab_to_targets(t)),
            GFilter::Env(t) => Box::new(EnvFilter::new(tab_to_env_string(t))),
            GFilter::StaticFn { levels, targets } => {
                let (l, t) = (*levels, *targets);
                Box::new(filter_fn(move |m: &Metadata<'_>| {
                    let ti = TARGETS.iter().position(|x| *x == m.target()).unwrap_or(7);
                    l >> (vp_rec::rank(m.level()) - 1) & 1 == 1 && t >> ti & 1 == 1
                }))
            }
            GFilter::DynFn { levels } => {
                let l = *levels;
                Box::new(dynamic_filter_fn(move |m: &Metadata<'_>, _cx: &Context<'_, Registry>| l >> (vp_rec::rank(m.level()) - 1) & 1 == 1))
            }
        }
    }
}
pub fn gfilter_strategy() -> BoxedStrategy<GFilter> {
    prop_oneof![
        4 => (1u8..=5).prop_map(GFilter::Level),
        2 => tab_strategy().prop_map(GFilter::Targets),
        2 => tab_strategy().prop_map(GFilter::Env),
        1 => (0u8..32, 0u8..8).prop_map(|(levels, targets)| GFilter::StaticFn { levels, targets }),
        2 => (0u8..32).prop_map(|levels| GFilter::DynFn { levels }),
    ]
    .boxed()
}

/// shape of a tree of layers
#[derive(Clone, Debug, Serialize, Deserialize, PartialEq)]
pub enum Node {
    Leaf,
    Filtered(Box<Node>, FExpr),
    Layered(Box<Node>, Box<Node>),
    Vec(Vec<Node>),
    Opt(Option<Box<Node>>),
    Boxed(Box<Node>),
    /// a global filter layer at this position (C08/C09 only)
    Global(GFilter),
    /// the subtree behind a `reload::Subscriber` (only over subtrees without Filtered nodes:
    /// reloading Filtered layers is a documented limitation of the reload module)
    Reload(Box<Node>),
    /// `Identity` composed in front of the subtree
    Identity(Box<Node>),
}
impl Node {
    pub fn leaves(&self) -> usize {
        match self {
            Node::Leaf => 1,
            Node::Global(_) => 0,
            Node::Filtered(n, _) | Node::Boxed(n) | Node::Reload(n) | Node::Identity(n) => n.leaves(),
            Node::Layered(a, b) => a.leaves() + b.leaves(),
            Node::Vec(v) => v.iter().map(|n| n.leaves()).sum(),
            Node::Opt(o) => o.as_ref().map(|n| n.leaves()).unwrap_or(0),
        }
    }
}
pub fn node_strategy(with_dynamic: bool, fdepth: u32) -> BoxedStrategy<Node> {
    let leaf = prop_oneof![2 => Just(Node::Leaf), 5 => fexpr_strategy(fdepth, with_dynamic).prop_map(|f| Node::Filtered(Box::new(Node::Leaf), f))];
    leaf.prop_recursive(3, 10, 3, move |inner| {
        prop_oneof![
            3 => (inner.clone(), fexpr_strategy(fdepth, with_dynamic)).prop_map(|(n, f)| Node::Filtered(Box::new(n), f)),
            4 => (inner.clone(), inner.clone()).prop_map(|(a, b)| Node::Layered(Box::new(a), Box::new(b))),
            3 => proptest::collection::vec(inner.clone(), 0..4).prop_map(Node::Vec),
            1 => proptest::option::weighted(0.7, inner.clone()).prop_map(|o| Node::Opt(o.map(Box::new))),
            1 => inner.clone().prop_map(|n| Node::Boxed(Box::new(n))),
            // an absent subscriber next to a real one inside the tree
            1 => (inner, any::<bool>()).prop_map(|(n, left)| if left { Node::Layered(Box::new(Node::Opt(None)), Box::new(n)) } else { Node::Layered(Box::new(n), Box::new(Node::Opt(None))) }),
        ]
    })
    .prop_filter("1..=6 leaves", |n| (1..=6).contains(&n.leaves()))
    .boxed()
}

// ---- recording leaf ------------------------------------------------------------------------

#[derive(Clone, Debug, PartialEq)]
pub enum LKind {
    NewSpan,
    Record,
    Event,
    Enter,
    Exit,
    Close,
    RegisterDispatch,
    RegisterCallsite,
    Enabled,
    EventEnabled,
    FollowsFrom,
    IdChange,
}
#[derive(Clone, Debug)]
pub struct LCall {
    /// global order stamp (one counter per process)
    pub seq: u64,
    pub kind: LKind,
    pub thread: u8,
    pub id: u64,
    pub id2: u64,
    /// value of the `cs` field (events / new spans), or level*10+target index for metadata-only calls
    pub cs: i64,
    pub level: u8,
    pub target: String,
    pub current: Option<u64>,
    pub scope: Vec<u64>,
}
pub type LeafLog = Arc<Mutex<Vec<LCall>>>;
pub static SEQ: std::sync::atomic::AtomicU64 = std::sync::atomic::AtomicU64::new(0);
pub fn next_seq() -> u64 {
    SEQ.fetch_add(1, std::sync::atomic::Ordering::SeqCst)
}

pub struct CsVisitor(pub i64);
impl tracing_core::field::Visit for CsVisitor {
    fn record_u64(&mut self, f: &tracing_core::Field, v: u64) {
        if f.name() == "cs" {
            self.0 = v as i64
        }
    }
    fn record_debug(&mut self, _: &tracing_core::Field, _: &dyn std::fmt::Debug) {}
}

/// Called at the start of every `RecLeaf::register_callsite` (lets a check act in the middle of
/// an interest-cache rebuild).
#[allow(clippy::type_complexity)]
pub static REGISTER_HOOK: Mutex<Option<Arc<dyn Fn() + Send + Sync>>> = Mutex::new(None);

pub struct RecLeaf {
    pub log: LeafLog,
    /// also log register_callsite / enabled / event_enabled / on_register_dispatch (C09)
    pub verbose: bool,
    /// veto events whose `cs` field equals this value in event_enabled (C09)
    pub veto_cs: Option<i64>,
    /// veto metadata with this level rank in `enabled` (C09)
    pub veto_level: Option<u8>,
}
impl RecLeaf {
    pub fn new(log: LeafLog) -> Self {
        RecLeaf { log, verbose: false, veto_cs: None, veto_level: None }
    }
    fn call<C: tracing_core::Collect + for<'a> LookupSpan<'a>>(&self, kind: LKind, id: u64, ctx: &Context<'_, C>) -> LCall {
        let mut c = self.call0(kind, id, ctx);
        // the same chain walked hop by hop through SpanRef::parent(): it has to be the scope
        // (if not, the walk is appended behind a marker so that the comparison with the expected
        // scope fails and shows both)
        if id != 0 {
            if let Some(s) = ctx.span(&span::Id::from_u64(id)) {
                let mut walk = vec![s.id().into_u64()];
                let mut cur = s.parent();
                while let Some(p) = cur {
                    walk.push(p.id().into_u64());
                    if walk.len() > 64 {
                        break;
                    }
                    cur = p.parent();
                }
                if walk != c.scope {
                    c.scope.push(u64::MAX);
                    c.scope.extend(walk);
                }
            }
        }
        c
    }
    fn call0<C: tracing_core::Collect + for<'a> LookupSpan<'a>>(&self, kind: LKind, id: u64, ctx: &Context<'_, C>) -> LCall {
        LCall {
            seq: next_seq(),
            kind,
            thread: vp_rec::tag(),
            id,
            id2: 0,
            cs: -1,
            level: 0,
            target: String::new(),
            current: ctx.lookup_current().map(|s| s.id().into_u64()),
            scope: if id != 0 { ctx.span_scope(&span::Id::from_u64(id)).map(|s| s.map(|x| x.id().into_u64()).collect()).unwrap_or_default() } else { vec![] },
        }
    }
    fn push(&self, c: LCall) {
        self.log.lock().unwrap().push(c)
    }
}
impl<C: tracing_core::Collect + for<'a> LookupSpan<'a>> Subscribe<C> for RecLeaf {
    fn on_register_dispatch(&self, _: &tracing_core::Dispatch) {
        if self.verbose {
            self.push(LCall { seq: next_seq(), kind: LKind::RegisterDispatch, thread: vp_rec::tag(), id: 0, id2: 0, cs: -1, level: 0, target: String::new(), current: None, scope: vec![] });
        }
    }
    fn register_callsite(&self, m: &'static Metadata<'static>) -> tracing_core::collect::Interest {
        let hook = REGISTER_HOOK.lock().unwrap().clone();
        if let Some(h) = hook {
            h();
        }
        if self.verbose {
            self.push(LCall { seq: next_seq(), kind: LKind::RegisterCallsite, thread: vp_rec::tag(), id: 0, id2: 0, cs: -1, level: vp_rec::rank(m.level()), target: m.target().to_string(), current: None, scope: vec![] });
        }
        if self.veto_level.is_some() {
            tracing_core::collect::Interest::sometimes()
        } else {
            tracing_core::collect::Interest::always()
        }
    }
    fn enabled(&self, m: &Metadata<'_>, ctx: Context<'_, C>) -> bool {
        if self.verbose {
            let mut c = self.call(LKind::Enabled, 0, &ctx);
            c.level = vp_rec::rank(m.level());
            c.target = m.target().to_string();
            self.push(c);
        }
        self.veto_level != Some(vp_rec::rank(m.level()))
    }
    fn event_enabled(&self, e: &Event<'_>, ctx: Context<'_, C>) -> bool {
        let mut v = CsVisitor(-1);
        e.record(&mut v);
        if self.verbose {
            let mut c = self.call(LKind::EventEnabled, 0, &ctx);
            c.cs = v.0;
            self.push(c);
        }
        self.veto_cs != Some(v.0) || v.0 < 0
    }
    fn on_new_span(&self, attrs: &span::Attributes<'_>, id: &span::Id, ctx: Context<'_, C>) {
        let mut v = CsVisitor(-1);
        attrs.record(&mut v);
        let mut c = self.call(LKind::NewSpan, id.into_u64(), &ctx);
        c.cs = v.0;
        c.level = vp_rec::rank(attrs.metadata().level());
        c.target = attrs.metadata().target().to_string();
        self.push(c);
    }
    fn on_record(&self, id: &span::Id, _: &span::Record<'_>, ctx: Context<'_, C>) {
        let c = self.call(LKind::Record, id.into_u64(), &ctx);
        self.push(c);
    }
    fn on_follows_from(&self, id: &span::Id, f: &span::Id, ctx: Context<'_, C>) {
        let mut c = self.call(LKind::FollowsFrom, id.into_u64(), &ctx);
        c.id2 = f.into_u64();
        self.push(c);
    }
    fn on_event(&self, e: &Event<'_>, ctx: Context<'_, C>) {
        let mut v = CsVisitor(-1);
        e.record(&mut v);
        let mut c = self.call(LKind::Event, 0, &ctx);
        c.cs = v.0;
        c.level = vp_rec::rank(e.metadata().level());
        c.target = e.metadata().target().to_string();
        c.scope = ctx.event_scope(e).map(|s| s.map(|x| x.id().into_u64()).collect()).unwrap_or_default();
        self.push(c);
    }
    fn on_enter(&self, id: &span::Id, ctx: Context<'_, C>) {
        let c = self.call(LKind::Enter, id.into_u64(), &ctx);
        self.push(c);
    }
    fn on_exit(&self, id: &span::Id, ctx: Context<'_, C>) {
        let c = self.call(LKind::Exit, id.into_u64(), &ctx);
        self.push(c);
    }
    fn on_close(&self, id: span::Id, ctx: Context<'_, C>) {
        let c = self.call(LKind::Close, id.into_u64(), &ctx);
        self.push(c);
    }
    fn on_id_change(&self, old: &span::Id, new: &span::Id, ctx: Context<'_, C>) {
        let mut c = self.call(LKind::IdChange, old.into_u64(), &ctx);
        c.id2 = new.into_u64();
        self.push(c);
    }
}

/// flattened view of a tree: for each leaf (DFS order) the indices of the `Filtered` nodes
/// on its path, outermost first
#[derive(Clone, Debug, Default)]
pub struct Flat {
    pub filters: Vec<FExpr>,
    pub leaf_paths: Vec<Vec<usize>>,
    /// for each filter: the `Filtered` nodes enclosing it, outermost first, ending with itself
    pub chains: Vec<Vec<usize>>,
}
pub fn flatten(n: &Node) -> Flat {
    fn go(n: &Node, path: &mut Vec<usize>, f: &mut Flat) {
        match n {
            Node::Leaf => f.leaf_paths.push(path.clone()),
            Node::Filtered(inner, e) => {
                f.filters.push(e.clone());
                path.push(f.filters.len() - 1);
                f.chains.push(path.clone());
                go(inner, path, f);
                path.pop();
            }
            Node::Layered(a, b) => {
                go(a, path, f);
                go(b, path, f);
            }
            Node::Vec(v) => {
                for x in v {
                    go(x, path, f)
                }
            }
            Node::Opt(o) => {
                if let Some(x) = o {
                    go(x, path, f)
                }
            }
            Node::Boxed(x) | Node::Reload(x) | Node::Identity(x) => go(x, path, f),
            Node::Global(_) => {}
        }
    }
    let mut f = Flat::default();
    go(n, &mut vec![], &mut f);
    f
}

/// builds the real layer tree; leaf logs are pushed in the same DFS order as `flatten`
pub fn build_tree(n: &Node, logs: &mut Vec<LeafLog>, mk: &mut dyn FnMut(LeafLog, usize) -> BS) -> BS {
    match n {
        Node::Leaf => {
            let log: LeafLog = Arc::new(Mutex::new(vec![]));
            logs.push(log.clone());
            let idx = logs.len() - 1;
            mk(log, idx)
        }
        Node::Filtered(inner, e) => {
            // the filter id is assigned at on_subscribe; flatten() numbers filters pre-order too
            let f = build_filter(e);
            let inner = build_tree(inner, logs, mk);
            inner.with_filter(f).boxed()
        }
        Node::Layered(a, b) => {
            let a = build_tree(a, logs, mk);
            let b = build_tree(b, logs, mk);
            a.and_then(b).boxed()
        }
        Node::Vec(v) => {
            let v: Vec<BS> = v.iter().map(|x| build_tree(x, logs, mk)).collect();
            v.boxed()
        }
        Node::Opt(o) => match o {
            Some(x) => Some(build_tree(x, logs, mk)).boxed(),
            None => None::<BS>.boxed(),
        },
        Node::Boxed(x) => {
            let inner = build_tree(x, logs, mk);
            Box::new(inner).boxed()
        }
        Node::Global(g) => g.build(),
        Node::Reload(x) => {
            let inner = build_tree(x, logs, mk);
            tracing_subscriber::reload::Subscriber::new(inner).0.boxed()
        }
        Node::Identity(x) => {
            let inner = build_tree(x, logs, mk);
            tracing_subscriber::subscribe::Identity::new().and_then(inner).boxed()
        }
    }
}
impl Node {
    pub fn has_filtered(&self) -> bool {
        match self {
            Node::Leaf | Node::Global(_) => false,
            Node::Filtered(..) => true,
            Node::Layered(a, b) => a.has_filtered() || b.has_filtered(),
            Node::Vec(v) => v.iter().any(|n| n.has_filtered()),
            Node::Opt(o) => o.as_ref().map(|n| n.has_filtered()).unwrap_or(false),
            Node::Boxed(n) | Node::Reload(n) | Node::Identity(n) => n.has_filtered(),
        }
    }
}

pub fn level_filter_of(r: u8) -> LevelFilter {
    vp_rec::filter_of_rank(r)
}


/// Recording layer for collectors that are not span registries (no context lookups).
pub struct Rec9 {
    pub log: LeafLog,
    pub veto_cs: Option<i64>,
    pub veto_level: Option<u8>,
}
impl Rec9 {
    fn mk(&self, kind: LKind, id: u64) -> LCall {
        LCall { seq: next_seq(), kind, thread: vp_rec::tag(), id, id2: 0, cs: -1, level: 0, target: String::new(), current: None, scope: vec![] }
    }
    fn push(&self, c: LCall) {
        self.log.lock().unwrap().push(c)
    }
}
impl<C: tracing_core::Collect> Subscribe<C> for Rec9 {
    fn on_register_dispatch(&self, _: &tracing_core::Dispatch) {
        self.push(self.mk(LKind::RegisterDispatch, 0));
    }
    fn register_callsite(&self, m: &'static Metadata<'static>) -> tracing_core::collect::Interest {
        let mut c = self.mk(LKind::RegisterCallsite, 0);
        c.level = vp_rec::rank(m.level());
        c.target = m.target().to_string();
        self.push(c);
        tracing_core::collect::Interest::sometimes()
    }
    fn enabled(&self, m: &Metadata<'_>, _: Context<'_, C>) -> bool {
        let mut c = self.mk(LKind::Enabled, 0);
        c.level = vp_rec::rank(m.level());
        c.target = m.target().to_string();
        self.push(c);
        self.veto_level != Some(vp_rec::rank(m.level()))
    }
    fn event_enabled(&self, e: &Event<'_>, _: Context<'_, C>) -> bool {
        let mut v = CsVisitor(-1);
        e.record(&mut v);
        let mut c = self.mk(LKind::EventEnabled, 0);
        c.cs = v.0;
        self.push(c);
        self.veto_cs != Some(v.0) || v.0 < 0
    }
    fn on_new_span(&self, attrs: &span::Attributes<'_>, id: &span::Id, _: Context<'_, C>) {
        let mut v = CsVisitor(-1);
        attrs.record(&mut v);
        let mut c = self.mk(LKind::NewSpan, id.into_u64());
        c.cs = v.0;
        self.push(c);
    }
    fn on_record(&self, id: &span::Id, _: &span::Record<'_>, _: Context<'_, C>) {
        self.push(self.mk(LKind::Record, id.into_u64()));
    }
    fn on_follows_from(&self, id: &span::Id, f: &span::Id, _: Context<'_, C>) {
        let mut c = self.mk(LKind::FollowsFrom, id.into_u64());
        c.id2 = f.into_u64();
        self.push(c);
    }
    fn on_event(&self, e: &Event<'_>, _: Context<'_, C>) {
        let mut v = CsVisitor(-1);
        e.record(&mut v);
        let mut c = self.mk(LKind::Event, 0);
        c.cs = v.0;
        self.push(c);
    }
    fn on_enter(&self, id: &span::Id, _: Context<'_, C>) {
        self.push(self.mk(LKind::Enter, id.into_u64()));
    }
    fn on_exit(&self, id: &span::Id, _: Context<'_, C>) {
        self.push(self.mk(LKind::Exit, id.into_u64()));
    }
    fn on_close(&self, id: span::Id, _: Context<'_, C>) {
        self.push(self.mk(LKind::Close, id.into_u64()));
    }
    fn on_id_change(&self, old: &span::Id, new: &span::Id, _: Context<'_, C>) {
        let mut c = self.mk(LKind::IdChange, old.into_u64());
        c.id2 = new.into_u64();
        self.push(c);
    }
}
