//! Types shared between the generated twins (corpus.rs) and the C17 harness.

/// an early exit whose `return` is hidden in a macro (as `bail!` / `ensure!` style macros do)
#[macro_export]
macro_rules! bail_with {
    ($e:expr) => {
        return $e
    };
}

use std::cell::{Cell, RefCell};
use std::fmt;
use std::future::Future;
use std::pin::Pin;
use std::task::{Context, Poll};

/// what a typed visitor saw
#[derive(Debug, Clone, PartialEq)]
pub enum Seen {
    U64(u64),
    I64(i64),
    U128(u128),
    I128(i128),
    F64(u64),
    Bool(bool),
    Str(String),
    Bytes(Vec<u8>),
    Error(String),
    Debug(String),
}

#[derive(Debug, Clone, PartialEq)]
pub enum Fx {
    /// body effect `k`, and the span the collector considers current (None without a collector)
    Mark(u32, Option<u64>),
    Drop(u32, Option<u64>),
}
thread_local! {
    /// (call slot, effect)
    pub static FX: RefCell<Vec<(usize, Fx)>> = const { RefCell::new(Vec::new()) };
    pub static SLOT: Cell<usize> = const { Cell::new(usize::MAX) };
    /// the recording collector's stack of entered spans on this thread
    pub static CUR: RefCell<Vec<u64>> = const { RefCell::new(Vec::new()) };
}
pub fn cur() -> Option<u64> {
    CUR.with(|c| c.borrow().last().copied())
}
thread_local! {
    /// the span that is current *around* the poll in progress (the executor's outer span, or the
    /// driver span it entered for this poll); None without one
    pub static CTX: Cell<Option<u64>> = const { Cell::new(None) };
}
/// what a body effect records as "current span" when the current span is just the ambient one
pub const AMBIENT: Option<u64> = Some(u64::MAX - 7);
pub fn fx(k: u32) {
    let c = cur();
    let c = if c == CTX.with(|x| x.get()) { AMBIENT } else { c };
    let e = (SLOT.with(|s| s.get()), Fx::Mark(k, c));
    FX.with(|f| f.borrow_mut().push(e));
}

pub struct Tok {
    pub id: u32,
}
impl Tok {
    pub fn new(id: u32) -> Tok {
        Tok { id }
    }
}
impl fmt::Debug for Tok {
    fn fmt(&self, f: &mut fmt::Formatter<'_>) -> fmt::Result {
        write!(f, "Tok({})", self.id)
    }
}
impl Drop for Tok {
    fn drop(&mut self) {
        let e = (SLOT.with(|s| s.get()), Fx::Drop(self.id, cur()));
        FX.with(|f| f.borrow_mut().push(e));
    }
}
#[derive(Debug, Clone, PartialEq)]
pub struct Counter {
    pub n: i32,
}
#[derive(Debug)]
pub struct P {
    pub px: i32,
    pub py: bool,
}
pub struct Svc {
    pub base: i64,
    pub calls: u32,
}
impl Svc {
    pub fn new(base: i64) -> Svc {
        Svc { base, calls: 0 }
    }
}
impl fmt::Debug for Svc {
    fn fmt(&self, f: &mut fmt::Formatter<'_>) -> fmt::Result {
        write!(f, "Svc({})", self.base)
    }
}
#[derive(PartialEq)]
pub struct MyErr(pub i64);
impl fmt::Debug for MyErr {
    fn fmt(&self, f: &mut fmt::Formatter<'_>) -> fmt::Result {
        write!(f, "MyErr({})", self.0)
    }
}
impl fmt::Display for MyErr {
    fn fmt(&self, f: &mut fmt::Formatter<'_>) -> fmt::Result {
        write!(f, "myerr:{}", self.0)
    }
}
pub fn helper(acc: i64) -> Result<i64, MyErr> {
    if acc.rem_euclid(5) == 1 {
        Err(MyErr(acc.wrapping_mul(10)))
    } else {
        Ok(acc.rem_euclid(11))
    }
}

/// Pending exactly once
pub struct YieldNow(bool);
pub fn yield_now() -> YieldNow {
    YieldNow(false)
}
impl Future for YieldNow {
    type Output = ();
    fn poll(mut self: Pin<&mut Self>, _: &mut Context<'_>) -> Poll<()> {
        if self.0 {
            Poll::Ready(())
        } else {
            self.0 = true;
            Poll::Pending
        }
    }
}

pub struct In {
    pub a: u32,
    pub b: i64,
    pub s: String,
    pub flag: bool,
    pub x: i32,
    pub y: i32,
    pub fbits: u64,
}
impl In {
    pub fn f(&self) -> f64 {
        f64::from_bits(self.fbits)
    }
}
pub struct Env {
    pub psp: tracing::Span,
    pub cause: tracing::Span,
    pub tok_r: Tok,
    pub counter: Counter,
    pub svc: Svc,
}

/// the observable result of a call
#[derive(Debug, Clone, PartialEq)]
pub struct Out {
    pub shown: String,
    /// (Debug text, Display text) of a plain (non-Result) return value
    pub val: Option<(String, String)>,
    pub ok: Option<(String, String)>,
    pub err: Option<(String, String)>,
}
pub trait Describe {
    fn describe(&self) -> Out;
}
impl Describe for () {
    fn describe(&self) -> Out {
        Out { shown: "()".into(), val: Some(("()".into(), "()".into())), ok: None, err: None }
    }
}
impl Describe for i64 {
    fn describe(&self) -> Out {
        Out { shown: format!("{self:?}"), val: Some((format!("{self:?}"), format!("{self}"))), ok: None, err: None }
    }
}
impl<T: fmt::Debug + fmt::Display> Describe for Result<T, MyErr> {
    fn describe(&self) -> Out {
        match self {
            Ok(v) => Out { shown: format!("Ok({v:?})"), val: None, ok: Some((format!("{v:?}"), format!("{v}"))), err: None },
            Err(e) => Out { shown: format!("Err({e:?})"), val: None, ok: None, err: Some((format!("{e:?}"), format!("{e}"))) },
        }
    }
}
pub fn describe_display<T: fmt::Display>(t: &T) -> Out {
    // an `impl Display` return value: only its Display text is observable
    Out { shown: format!("{t}"), val: Some((format!("{t}"), format!("{t}"))), ok: None, err: None }
}

#[derive(Debug, Clone, Copy, PartialEq)]
pub enum PKind {
    Contextual,
    Root,
    Explicit,
}
#[derive(Debug, Clone, Copy)]
pub struct EvSpec {
    pub level: u8,
    /// ret: Display mode; err: Debug mode
    pub alt: bool,
}
pub type CallFn = for<'a> fn(&'a In, &'a mut Env) -> Pin<Box<dyn Future<Output = Out> + 'a>>;
pub struct TwinDesc {
    pub id: u32,
    pub src: &'static str,
    pub span_name: &'static str,
    pub level: u8,
    pub target: Option<&'static str>,
    pub parent: PKind,
    pub follows: bool,
    pub is_async: bool,
    pub is_result: bool,
    pub display_ret: bool,
    pub ret: Option<EvSpec>,
    pub err: Option<EvSpec>,
    pub rich: bool,
    pub fields: fn(&In) -> Vec<(&'static str, Seen)>,
    pub call_plain: CallFn,
    pub call_inst: CallFn,
}
