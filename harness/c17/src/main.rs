//! C17 — #[instrument] preserves behaviour exactly and adds one well-formed span per call.
//!
//! Twin functions are generated source (gen/c17.py -> corpus.rs). A case picks 1-3 twins with
//! generated inputs, a collector mode and a poll schedule; the plain variants and then the
//! instrumented variants are driven by the same deterministic executor (interleaving their
//! polls). Oracle: (1) differential — same result / panic payload, same effect sequence, same
//! drop counts, same state of the &mut arguments; (2) the collector's log against the twin's
//! descriptor — exactly one span per call with the configured name, level, target, parent and
//! typed fields, every effect and ret / err event of the call inside that span, nothing else in it.

#[cfg(not(feature = "thorough-corpus"))]
mod corpus;
#[cfg(feature = "thorough-corpus")]
#[path = "corpus_t.rs"]
mod corpus;
mod support;

use corpus::TWINS;
use proptest::prelude::*;
use serde::{Deserialize, Serialize};
use std::future::Future;
use std::panic::{catch_unwind, AssertUnwindSafe};
use std::pin::Pin;
use std::sync::{Arc, Mutex};
use std::task::{Context, Poll, RawWaker, RawWakerVTable, Waker};
use support::*;
use tracing_core::field::{Field, Visit};
use tracing_core::{span, Collect, Dispatch, Event, Interest, Level, LevelFilter, Metadata};
use vp_engine::{pick, Isolation, Outcome, Property, Tier};

#[derive(Clone, Debug, Serialize, Deserialize)]
struct RawIn {
    a: u32,
    b: i64,
    s: String,
    flag: bool,
    x: i32,
    y: i32,
    fbits: u64,
}
#[derive(Clone, Copy, Debug, Serialize, Deserialize, PartialEq)]
enum Mode {
    /// recording collector that enables everything
    All,
    /// register_callsite -> never
    Never,
    /// interest sometimes, enabled() false
    DynOff,
    /// enables everything, max_level_hint = rank
    Cap(u8),
    /// no collector at all
    NoCollector,
}
#[derive(Clone, Debug, Serialize, Deserialize)]
struct Case {
    corpus_seed: u64,
    mode: Mode,
    /// calls happen inside an entered harness span
    outer: bool,
    /// from its second poll on, every poll of a future happens inside a span of its own that the
    /// executor enters for it (the context around a future differs from poll to poll)
    #[serde(default)]
    drivers: bool,
    /// a future that is still pending after its first poll is cancelled: dropped by a panic
    /// (caught) that unwinds over it
    #[serde(default)]
    cancel_unwinding: bool,
    calls: Vec<(u16, RawIn)>,
    sched: Vec<u8>,
}

fn rank_of(l: &Level) -> u8 {
    match *l {
        Level::ERROR => 1,
        Level::WARN => 2,
        Level::INFO => 3,
        Level::DEBUG => 4,
        _ => 5,
    }
}
fn filter_of(rank: u8) -> LevelFilter {
    match rank {
        0 => LevelFilter::OFF,
        1 => LevelFilter::ERROR,
        2 => LevelFilter::WARN,
        3 => LevelFilter::INFO,
        4 => LevelFilter::DEBUG,
        _ => LevelFilter::TRACE,
    }
}

#[derive(Debug, Clone, PartialEq)]
enum PSeen {
    Contextual(Option<u64>),
    Root,
    Explicit(u64),
}
#[derive(Debug, Clone)]
enum CCall {
    NewSpan { id: u64, name: String, target: String, level: u8, parent: PSeen, visited: Vec<(String, Seen)> },
    Enter(u64),
    Exit(u64),
    Event { target: String, level: u8, parent: PSeen, visited: Vec<(String, Seen)> },
    Follows(u64, u64),
    Record(u64),
}
#[derive(Default)]
struct TypedVisitor(Vec<(String, Seen)>);
impl Visit for TypedVisitor {
    fn record_f64(&mut self, f: &Field, v: f64) {
        self.0.push((f.name().to_string(), Seen::F64(v.to_bits())));
    }
    fn record_i64(&mut self, f: &Field, v: i64) {
        self.0.push((f.name().to_string(), Seen::I64(v)));
    }
    fn record_u64(&mut self, f: &Field, v: u64) {
        self.0.push((f.name().to_string(), Seen::U64(v)));
    }
    fn record_i128(&mut self, f: &Field, v: i128) {
        self.0.push((f.name().to_string(), Seen::I128(v)));
    }
    fn record_u128(&mut self, f: &Field, v: u128) {
        self.0.push((f.name().to_string(), Seen::U128(v)));
    }
    fn record_bool(&mut self, f: &Field, v: bool) {
        self.0.push((f.name().to_string(), Seen::Bool(v)));
    }
    fn record_str(&mut self, f: &Field, v: &str) {
        self.0.push((f.name().to_string(), Seen::Str(v.to_string())));
    }
    fn record_bytes(&mut self, f: &Field, v: &[u8]) {
        self.0.push((f.name().to_string(), Seen::Bytes(v.to_vec())));
    }
    fn record_error(&mut self, f: &Field, v: &(dyn std::error::Error + 'static)) {
        self.0.push((f.name().to_string(), Seen::Error(v.to_string())));
    }
    fn record_debug(&mut self, f: &Field, v: &dyn std::fmt::Debug) {
        self.0.push((f.name().to_string(), Seen::Debug(format!("{:?}", v))));
    }
}

struct C17Coll {
    mode: Mode,
    log: Arc<Mutex<Vec<(usize, CCall)>>>,
    next: std::sync::atomic::AtomicU64,
    /// metadata of every span handed out (for current_span)
    metas: Mutex<std::collections::HashMap<u64, &'static Metadata<'static>>>,
}
fn is_harness(m: &Metadata<'_>) -> bool {
    m.name().starts_with("c17_")
}
impl C17Coll {
    fn push(&self, c: CCall) {
        self.log.lock().unwrap().push((SLOT.with(|s| s.get()), c));
    }
}
impl Collect for C17Coll {
    fn register_callsite(&self, m: &'static Metadata<'static>) -> Interest {
        if is_harness(m) {
            return Interest::always();
        }
        match self.mode {
            Mode::Never => Interest::never(),
            Mode::DynOff => Interest::sometimes(),
            _ => Interest::always(),
        }
    }
    fn enabled(&self, m: &Metadata<'_>) -> bool {
        is_harness(m) || !matches!(self.mode, Mode::Never | Mode::DynOff)
    }
    fn max_level_hint(&self) -> Option<LevelFilter> {
        match self.mode {
            Mode::Cap(r) => Some(filter_of(r)),
            _ => None,
        }
    }
    fn new_span(&self, a: &span::Attributes<'_>) -> span::Id {
        let id = self.next.fetch_add(1, std::sync::atomic::Ordering::Relaxed);
        self.metas.lock().unwrap().insert(id, a.metadata());
        if !is_harness(a.metadata()) {
            let mut v = TypedVisitor::default();
            a.record(&mut v);
            let parent = if a.is_root() {
                PSeen::Root
            } else if let Some(p) = a.parent() {
                PSeen::Explicit(p.into_u64())
            } else {
                PSeen::Contextual(cur())
            };
            let m = a.metadata();
            self.push(CCall::NewSpan { id, name: m.name().to_string(), target: m.target().to_string(), level: rank_of(m.level()), parent, visited: v.0 });
        }
        span::Id::from_u64(id)
    }
    fn record(&self, id: &span::Id, _: &span::Record<'_>) {
        self.push(CCall::Record(id.into_u64()));
    }
    fn record_follows_from(&self, id: &span::Id, f: &span::Id) {
        self.push(CCall::Follows(id.into_u64(), f.into_u64()));
    }
    fn event(&self, e: &Event<'_>) {
        let mut v = TypedVisitor::default();
        e.record(&mut v);
        let parent = if e.is_root() {
            PSeen::Root
        } else if let Some(p) = e.parent() {
            PSeen::Explicit(p.into_u64())
        } else {
            // (the ambient span of the poll in progress is recorded as such, see `fx`)
            let c = cur();
            PSeen::Contextual(if c == CTX.with(|x| x.get()) { AMBIENT } else { c })
        };
        let m = e.metadata();
        self.push(CCall::Event { target: m.target().to_string(), level: rank_of(m.level()), parent, visited: v.0 });
    }
    fn enter(&self, id: &span::Id) {
        CUR.with(|c| c.borrow_mut().push(id.into_u64()));
        self.push(CCall::Enter(id.into_u64()));
    }
    fn exit(&self, id: &span::Id) {
        CUR.with(|c| {
            let mut c = c.borrow_mut();
            if let Some(p) = c.iter().rposition(|x| *x == id.into_u64()) {
                c.remove(p);
            }
        });
        self.push(CCall::Exit(id.into_u64()));
    }
    fn current_span(&self) -> span::Current {
        match cur().and_then(|id| self.metas.lock().unwrap().get(&id).map(|m| (id, *m))) {
            Some((id, m)) => span::Current::new(span::Id::from_u64(id), m),
            None => span::Current::none(),
        }
    }
}

const MODULE: &str = "c17::corpus";

fn noop_waker() -> Waker {
    fn clone(_: *const ()) -> RawWaker {
        RawWaker::new(std::ptr::null(), &VT)
    }
    fn noop(_: *const ()) {}
    static VT: RawWakerVTable = RawWakerVTable::new(clone, noop, noop, noop);
    unsafe { Waker::from_raw(RawWaker::new(std::ptr::null(), &VT)) }
}

#[derive(Debug, Clone, PartialEq)]
struct CallResult {
    out: Result<Out, String>,
    marks: Vec<(u32, Option<u64>)>,
    drops: Vec<(u32, Option<u64>)>,
    counter: i32,
    svc: (i64, u32),
    polls: u32,
    scope_leak: Option<String>,
    /// the spans that were current when values of the body were dropped by the cancellation
    cancel_drops: Vec<Option<u64>>,
}
struct VariantResult {
    calls: Vec<CallResult>,
    log: Vec<(usize, CCall)>,
    outer_id: Option<u64>,
    psp_ids: Vec<Option<u64>>,
    cause_ids: Vec<Option<u64>>,
}

fn run_variant(case: &Case, inst: bool) -> VariantResult {
    let log = Arc::new(Mutex::new(Vec::new()));
    let body = || {
        FX.with(|f| f.borrow_mut().clear());
        CUR.with(|c| c.borrow_mut().clear());
        SLOT.with(|s| s.set(usize::MAX));
        let outer = if case.outer { Some(tracing::span!(Level::ERROR, "c17_outer").entered()) } else { None };
        let outer_id = outer.as_ref().and_then(|o| o.id()).map(|i| i.into_u64());
        // (without a collector of ours nothing tracks entered spans: the ambient span is "none")
        let tracked = case.mode != Mode::NoCollector;
        CTX.with(|c| c.set(outer_id.filter(|_| tracked)));
        let inputs: Vec<In> = case.calls.iter().map(|(_, r)| In { a: r.a, b: r.b, s: r.s.clone(), flag: r.flag, x: r.x, y: r.y, fbits: r.fbits }).collect();
        let mut envs: Vec<Env> = inputs.iter().map(|i| Env { psp: tracing::span!(Level::ERROR, "c17_psp"), cause: tracing::span!(Level::ERROR, "c17_cause"), tok_r: Tok::new(9), counter: Counter { n: i.x }, svc: Svc::new(i.b) }).collect();
        let psp_ids: Vec<Option<u64>> = envs.iter().map(|e| e.psp.id().map(|i| i.into_u64())).collect();
        let cause_ids: Vec<Option<u64>> = envs.iter().map(|e| e.cause.id().map(|i| i.into_u64())).collect();
        let n = inputs.len();
        let mut outs: Vec<Option<Result<Out, String>>> = vec![None; n];
        let mut polls = vec![0u32; n];
        let mut leaks: Vec<Option<String>> = vec![None; n];
        let mut cancel_drops: Vec<Vec<Option<u64>>> = vec![vec![]; n];
        {
            let mut futs: Vec<Option<Pin<Box<dyn Future<Output = Out> + '_>>>> = Vec::new();
            for (k, (env, inp)) in envs.iter_mut().zip(inputs.iter()).enumerate() {
                let desc = &TWINS[pick(case.calls[k].0, TWINS.len())];
                SLOT.with(|s| s.set(k));
                // creating the future evaluates the call's argument expressions (and, for
                // boxed-future twins, runs the outer function)
                let call = if inst { desc.call_inst } else { desc.call_plain };
                let f = catch_unwind(AssertUnwindSafe(move || { let e = env; call(inp, e) }));
                match f {
                    Ok(f) => futs.push(Some(f)),
                    Err(p) => {
                        outs[k] = Some(Err(payload(p)));
                        futs.push(None);
                    }
                }
            }
            let waker = noop_waker();
            let mut cx = Context::from_waker(&waker);
            let mut si = 0usize;
            loop {
                let alive: Vec<usize> = (0..n).filter(|k| futs[*k].is_some()).collect();
                if alive.is_empty() {
                    break;
                }
                let b = case.sched.get(si).copied().unwrap_or(0);
                si += 1;
                let k = alive[b as usize % alive.len()];
                // (the driver span is nobody's call: its own notifications carry no slot)
                SLOT.with(|s| s.set(usize::MAX));
                let driver = if case.drivers && polls[k] >= 1 { Some(tracing::span!(Level::ERROR, "c17_driver").entered()) } else { None };
                if let Some(d) = &driver {
                    CTX.with(|c| c.set(d.id().map(|i| i.into_u64()).filter(|_| tracked)));
                }
                SLOT.with(|s| s.set(k));
                let base: Vec<u64> = CUR.with(|c| c.borrow().clone());
                polls[k] += 1;
                let r = catch_unwind(AssertUnwindSafe(|| futs[k].as_mut().unwrap().as_mut().poll(&mut cx)));
                let done = match r {
                    Ok(Poll::Ready(o)) => {
                        outs[k] = Some(Ok(o));
                        true
                    }
                    Ok(Poll::Pending) => false,
                    Err(p) => {
                        outs[k] = Some(Err(payload(p)));
                        true
                    }
                };
                if done {
                    let f = futs[k].take();
                    let _ = catch_unwind(AssertUnwindSafe(|| drop(f)));
                } else if case.cancel_unwinding && polls[k] == 1 {
                    let f = futs[k].take();
                    let before = FX.with(|x| x.borrow().len());
                    let r = catch_unwind(AssertUnwindSafe(move || {
                        let _dropped_by_the_unwind = f;
                        panic!("the task is cancelled by an unwinding owner");
                    }));
                    assert!(r.is_err());
                    cancel_drops[k] = FX.with(|x| x.borrow()[before..].iter().filter(|(s, _)| *s == k).filter_map(|(_, f)| if let Fx::Drop(_, c) = f { Some(*c) } else { None }).collect());
                    outs[k] = Some(Err("cancelled after the first poll".into()));
                }
                let now: Vec<u64> = CUR.with(|c| c.borrow().clone());
                if now != base && leaks[k].is_none() {
                    leaks[k] = Some(format!("entered spans before the poll {base:?}, after it {now:?}"));
                    CUR.with(|c| *c.borrow_mut() = base);
                }
                if polls[k] > 64 {
                    outs[k] = Some(Err("harness: future did not complete in 64 polls".into()));
                    futs[k] = None;
                }
                SLOT.with(|s| s.set(usize::MAX));
                drop(driver);
                CTX.with(|c| c.set(outer_id.filter(|_| tracked)));
            }
        }
        SLOT.with(|s| s.set(usize::MAX));
        let fxs: Vec<(usize, Fx)> = FX.with(|f| f.borrow_mut().drain(..).collect());
        let calls = (0..n)
            .map(|k| CallResult {
                out: outs[k].clone().unwrap_or(Err("harness: no result".into())),
                marks: fxs.iter().filter(|(s, _)| *s == k).filter_map(|(_, f)| if let Fx::Mark(m, c) = f { Some((*m, *c)) } else { None }).collect(),
                drops: fxs.iter().filter(|(s, _)| *s == k).filter_map(|(_, f)| if let Fx::Drop(m, c) = f { Some((*m, *c)) } else { None }).collect(),
                counter: envs[k].counter.n,
                svc: (envs[k].svc.base, envs[k].svc.calls),
                polls: polls[k],
                scope_leak: leaks[k].clone(),
                cancel_drops: cancel_drops[k].clone(),
            })
            .collect();
        drop(envs);
        drop(outer);
        (calls, outer_id, psp_ids, cause_ids)
    };
    let (calls, outer_id, psp_ids, cause_ids) = if case.mode == Mode::NoCollector {
        body()
    } else {
        let d = Dispatch::new(C17Coll { mode: case.mode, log: log.clone(), next: std::sync::atomic::AtomicU64::new(100), metas: Default::default() });
        tracing_core::dispatch::with_default(&d, body)
    };
    let log = log.lock().unwrap().clone();
    VariantResult { calls, log, outer_id, psp_ids, cause_ids }
}

fn payload(p: Box<dyn std::any::Any + Send>) -> String {
    if let Some(s) = p.downcast_ref::<String>() {
        s.clone()
    } else if let Some(s) = p.downcast_ref::<&str>() {
        s.to_string()
    } else {
        "<non-string panic payload>".into()
    }
}

fn run_case(case: &Case) -> Outcome {
    if case.corpus_seed != corpus::SEED {
        return Outcome { verdict: vp_engine::Verdict::Inconclusive(format!("case was generated for corpus seed {} but this binary holds corpus seed {}", case.corpus_seed, corpus::SEED)), nontrivial: false, classes: vec![], excluded_known: 0 };
    }
    let _q = vp_engine::quiet_panics();
    let plain = run_variant(case, false);
    let inst = run_variant(case, true);
    let mut classes: Vec<String> = vec![format!("mode:{:?}", case.mode).split('(').next().unwrap().to_string()];
    let mut nontrivial = false;
    for (k, (ti, raw)) in case.calls.iter().enumerate() {
        let desc = &TWINS[pick(*ti, TWINS.len())];
        let (p, i) = (&plain.calls[k], &inst.calls[k]);
        let ctx = || format!("call {k}: twin {} `{}`; mode {:?}, outer span {}; input {:?}; schedule {:?};\n plain: {:?}\n instrumented: {:?}\n collector log of this call: {:?}", desc.id, desc.src, case.mode, case.outer, raw, case.sched, p, i, inst.log.iter().filter(|(s, _)| *s == k).map(|(_, c)| c).collect::<Vec<_>>());
        // ---- differential twin
        match (&p.out, &i.out) {
            (Ok(a), Ok(b)) if a == b => {}
            (Err(a), Err(b)) if a == b => {
                classes.push("panicked".into());
            }
            (Ok(_), Ok(_)) => return Outcome::fail("instrumented function returns a different value", ctx()),
            (Err(_), Err(_)) => return Outcome::fail("instrumented function panics with a different payload", ctx()),
            _ => return Outcome::fail("instrumented function panics / returns where the plain one does not", ctx()),
        }
        if p.marks.iter().map(|m| m.0).collect::<Vec<_>>() != i.marks.iter().map(|m| m.0).collect::<Vec<_>>() {
            return Outcome::fail("instrumented function has a different effect sequence", ctx());
        }
        let mut pd: Vec<u32> = p.drops.iter().map(|d| d.0).collect();
        let mut id: Vec<u32> = i.drops.iter().map(|d| d.0).collect();
        pd.sort();
        id.sort();
        if pd != id {
            return Outcome::fail("instrumented function drops its arguments a different number of times", ctx());
        }
        if p.counter != i.counter || p.svc != i.svc {
            return Outcome::fail("instrumented function leaves different state in its &mut arguments", ctx());
        }
        if p.polls != i.polls {
            return Outcome::fail("instrumented future needs a different number of polls", ctx());
        }
        if let Some(l) = &i.scope_leak {
            return Outcome::fail("a poll left a span entered (or exited one it did not enter)", format!("{l}; {}", ctx()));
        }
        // ---- span log
        // without a collector of ours nothing tracks entered spans (a stale `always` interest may
        // still hand out NoCollector's dummy id)
        let base = if case.mode == Mode::NoCollector { None } else { inst.outer_id };
        let mine: Vec<&CCall> = inst.log.iter().filter(|(s, _)| *s == k).map(|(_, c)| c).collect();
        let cap = match case.mode {
            Mode::Cap(r) => r,
            _ => 5,
        };
        let collecting = matches!(case.mode, Mode::All | Mode::Cap(_));
        let span_on = collecting && desc.level <= cap;
        let spans: Vec<&CCall> = mine.iter().copied().filter(|c| matches!(c, CCall::NewSpan { .. })).collect();
        let events: Vec<&CCall> = mine.iter().copied().filter(|c| matches!(c, CCall::Event { .. })).collect();
        let target = desc.target.unwrap_or(MODULE);
        let mut span_id = None;
        if !span_on {
            if !spans.is_empty() {
                return Outcome::fail("a span was created although the collector / level cap disables it", ctx());
            }
            let _ = base;
            if i.marks.iter().any(|m| m.1 != AMBIENT) {
                return Outcome::fail("body ran inside some span although its own span is disabled", ctx());
            }
            // nothing may be entered or left on behalf of this call
            if mine.iter().any(|c| matches!(c, CCall::Enter(_) | CCall::Exit(_))) {
                return Outcome::fail("a span was entered or exited during the call although its own span is disabled", ctx());
            }
            classes.push("span_disabled".into());
        } else {
            if spans.len() != 1 {
                return Outcome::fail("not exactly one span per call", format!("{} spans; {}", spans.len(), ctx()));
            }
            if let CCall::NewSpan { id, name, target: t, level, parent, visited } = spans[0] {
                span_id = Some(*id);
                if name != desc.span_name || *level != desc.level || t != target {
                    return Outcome::fail("span has the wrong name, level or target", format!("expected name {:?} level {} target {:?}; {}", desc.span_name, desc.level, target, ctx()));
                }
                let want_parent = match desc.parent {
                    PKind::Root => PSeen::Root,
                    PKind::Contextual => PSeen::Contextual(base),
                    PKind::Explicit => match inst.psp_ids[k] {
                        Some(p) => PSeen::Explicit(p),
                        None => PSeen::Contextual(base),
                    },
                };
                if *parent != want_parent {
                    return Outcome::fail("span has the wrong parent", format!("expected {want_parent:?}; {}", ctx()));
                }
                let inp = In { a: raw.a, b: raw.b, s: raw.s.clone(), flag: raw.flag, x: raw.x, y: raw.y, fbits: raw.fbits };
                let want: Vec<(String, Seen)> = (desc.fields)(&inp).into_iter().map(|(n, s)| (n.to_string(), s)).collect();
                if *visited != want {
                    return Outcome::fail("span fields differ (missing, extra, skipped one present, wrong type / value / order)", format!("expected {want:?}; {}", ctx()));
                }
            }
            let sid = span_id.unwrap();
            let follows: Vec<&CCall> = mine.iter().copied().filter(|c| matches!(c, CCall::Follows(..))).collect();
            let want_follows = if desc.follows { inst.cause_ids[k].map(|c| vec![(sid, c)]).unwrap_or_default() } else { vec![] };
            let got_follows: Vec<(u64, u64)> = follows.iter().map(|c| if let CCall::Follows(a, b) = c { (*a, *b) } else { (0, 0) }).collect();
            if got_follows != want_follows {
                return Outcome::fail("follows_from relationships differ", format!("expected {want_follows:?}; {}", ctx()));
            }
            // enters / exits of this span: well nested, at least one per poll
            let mut depth = 0i32;
            let mut enters = 0u32;
            for c in &mine {
                match c {
                    CCall::Enter(x) if *x == sid => {
                        depth += 1;
                        enters += 1;
                        if depth > 1 {
                            return Outcome::fail("span entered twice without an exit", ctx());
                        }
                    }
                    CCall::Exit(x) if *x == sid => {
                        depth -= 1;
                        if depth < 0 {
                            return Outcome::fail("span exited without being entered", ctx());
                        }
                    }
                    _ => {}
                }
            }
            if depth != 0 {
                return Outcome::fail("span left entered after the call", ctx());
            }
            let min_enters = if desc.is_async { i.polls } else { 1 };
            let max_enters = if desc.is_async { i.polls + 1 } else { 1 };
            if enters < min_enters || enters > max_enters {
                return Outcome::fail("span not entered once per call / per poll", format!("{enters} enters for {} polls; {}", i.polls, ctx()));
            }
            // the span may only be entered while this call is being polled
            if inst.log.iter().any(|(s, c)| *s != k && matches!(c, CCall::Enter(x) | CCall::Exit(x) if *x == sid)) {
                return Outcome::fail("the call's span was entered outside the call", ctx());
            }
            if i.marks.iter().any(|m| m.1 != Some(sid)) {
                return Outcome::fail("part of the body ran outside the call's span", ctx());
            }
            // a cancelled body is cleaned up inside its span, however the cancellation comes about
            // (judged for `async fn` twins; in the boxed forms the values the async block captured
            // are seen to be dropped outside the span on the unchanged tree as well - where a
            // cancelled body's captures are dropped is not part of the property as read here)
            let async_fn = desc.src.ends_with("[async]") || desc.src.ends_with("[method_async]");
            if async_fn && i.cancel_drops.iter().any(|c| *c != Some(sid)) {
                return Outcome::fail("values of a cancelled body were dropped outside the call's span", format!("current span at those drops: {:?}; {}", i.cancel_drops, ctx()));
            }
            if !i.cancel_drops.is_empty() {
                classes.push("cancelled_by_unwinding_with_live_values".into());
            }
            if desc.is_async && i.polls >= 2 {
                classes.push("async_multi_poll_in_span".into());
            }
        }
        // ---- ret / err events
        let mut want_events: Vec<(u8, &str, String)> = Vec::new();
        if collecting {
            if let Ok(o) = &p.out {
                if let Some(spec) = desc.ret {
                    if desc.is_result && desc.err.is_none() {
                        // `ret` alone on a Result-returning function presents the whole Result
                        want_events.push((spec.level, "return", o.shown.clone()));
                    } else if let Some(v) = o.val.as_ref().or(o.ok.as_ref()) {
                        want_events.push((spec.level, "return", if spec.alt { v.1.clone() } else { v.0.clone() }));
                    }
                }
                if let (Some(spec), Some(e)) = (desc.err, o.err.as_ref()) {
                    want_events.push((spec.level, "error", if spec.alt { e.0.clone() } else { e.1.clone() }));
                }
            }
        }
        want_events.retain(|e| e.0 <= cap);
        if events.len() != want_events.len() {
            return Outcome::fail("ret / err events differ in number", format!("expected {want_events:?}; {}", ctx()));
        }
        for (e, w) in events.iter().zip(&want_events) {
            if let CCall::Event { target: t, level, parent, visited } = e {
                let inside = if span_on { span_id } else { AMBIENT };
                if *parent != PSeen::Contextual(inside) {
                    return Outcome::fail("ret / err event is not emitted inside the call's span", format!("expected current span {inside:?}; {}", ctx()));
                }
                if *level != w.0 || t != target {
                    return Outcome::fail("ret / err event has the wrong level or target", format!("expected level {} target {:?}; {}", w.0, target, ctx()));
                }
                if *visited != vec![(w.1.to_string(), Seen::Debug(w.2.clone()))] {
                    return Outcome::fail("ret / err event does not carry the returned value / error", format!("expected {}={:?}; {}", w.1, w.2, ctx()));
                }
                classes.push(format!("{}_event", w.1));
            }
        }
        if desc.rich && (span_on || case.mode == Mode::NoCollector) {
            nontrivial = true;
        }
        classes.push(if desc.is_async { "async".into() } else { "sync".into() });
    }
    if case.calls.len() >= 2 {
        classes.push("interleaved_calls".into());
    }
    classes.sort();
    classes.dedup();
    Outcome::pass(nontrivial, classes)
}

struct C17;

impl Property for C17 {
    type Case = Case;
    fn id(&self) -> &'static str {
        "C17"
    }
    fn isolation(&self) -> Isolation {
        Isolation::Thread
    }
    fn cases(&self, tier: Tier) -> u32 {
        tier.pick(20_000, 1_200_000)
    }
    fn strategy(&self, _tier: Tier) -> BoxedStrategy<Case> {
        let raw = (
            prop_oneof![3 => any::<u32>(), 1 => 0u32..30, 1 => Just(u32::MAX), 1 => Just(0)],
            prop_oneof![3 => any::<i64>(), 2 => -40i64..40, 1 => Just(i64::MIN), 1 => Just(i64::MAX)],
            prop_oneof![2 => "[a-z]{0,6}", 1 => "\\PC{0,6}", 1 => Just("q\"uo\\te\n".to_string())],
            any::<bool>(),
            prop_oneof![2 => any::<i32>(), 2 => -20i32..20, 1 => Just(i32::MAX), 1 => Just(i32::MIN)],
            prop_oneof![2 => any::<i32>(), 2 => -20i32..20, 1 => Just(i32::MAX)],
            prop_oneof![2 => any::<u64>(), 1 => Just(f64::NAN.to_bits()), 1 => Just(1.5f64.to_bits()), 1 => Just((-0.0f64).to_bits())],
        )
            .prop_map(|(a, b, s, flag, x, y, fbits)| RawIn { a, b, s, flag, x, y, fbits });
        let mode = prop_oneof![6 => Just(Mode::All), 1 => Just(Mode::Never), 1 => Just(Mode::DynOff), 2 => (1u8..6).prop_map(Mode::Cap), 1 => Just(Mode::NoCollector)];
        (mode, any::<bool>(), proptest::collection::vec((any::<u16>(), raw), 1..4), proptest::collection::vec(any::<u8>(), 0..12), (proptest::bool::weighted(0.4), proptest::bool::weighted(0.2))).prop_map(|(mode, outer, calls, sched, (drivers, cancel_unwinding))| Case { corpus_seed: corpus::SEED, mode, outer, calls, sched, drivers, cancel_unwinding }).boxed()
    }
    fn run(&self, case: &Case) -> Outcome {
        run_case(case)
    }
    fn rule(&self) -> String {
        format!(
            "corpus of {} generated twin functions (corpus seed {}; gen/c17.py): sync / async / Box::pin(async move) / methods with &self, &mut self, self x 0-4 arguments from 19 patterns (Value and Debug types, &, &mut, tuple and struct destructuring, generic, impl Trait, drop-logging tokens) x return shapes (unit, value, Result, impl Display; early return, `?`, panic) x attribute arguments (level in 3 spellings, name, target, parent = None / a span argument, follows_from, skip, skip_all, fields over the arguments incl. sigils and Empty, ret / err with level and Display / Debug). case = collector mode (record all, interest never, enabled() false, max-level hint 1-5, no collector) x optional outer span x 1-3 (twin, inputs) calls x poll schedule; plain and instrumented variants run under the same deterministic interleaving executor. non-trivial: a twin with >= 2 attribute features (or an async twin polled >= 2 times) whose span is enabled, or run without a collector; distinct by case",
            TWINS.len(),
            corpus::SEED
        )
    }
    fn assumptions(&self) -> Vec<String> {
        vec![
            "drop ORDER relative to other effects is not compared (the property states counts); non-drop effects are compared as a sequence".into(),
            "an async twin's span may be entered once more than it is polled (Instrumented enters the span to drop the inner future)".into(),
            "when the span itself is disabled by the level cap but a ret / err event's own level passes, the event is expected outside any span".into(),
            "span handles passed for parent = / follows_from = are always skipped (their Debug text is not stable)".into(),
            "the thorough tier regenerates the corpus from VERIF_SEED (one rebuild); a replay file is bound to its corpus seed".into(),
        ]
    }
}

fn main() {
    vp_engine::main(C17)
}
