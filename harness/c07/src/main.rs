//! C07 — per-layer filters are isolated: a layer sees exactly what its own filters (and the
//! global filters) accept, independent of other layers' filters, of layer order and of
//! anything that happened earlier on the thread.
//!
//! Case = 1-2 stack descriptions (tree of plain / Filtered / Layered / Vec / Option / Box nodes
//! over recording leaves, plus top-level global filter layers) + a workload through the real
//! macros on two stepped threads (thread t uses stack t mod #stacks), one fresh process per
//! case so every callsite cache starts cold. Oracle: reference evaluator of the filter
//! expressions on the model's *filtered view* of each thread's span stack.

use proptest::prelude::*;
use serde::{Deserialize, Serialize};
use std::sync::Arc;
use tracing::{Level, Span};
use tracing_core::dispatch::{self, DefaultGuard};
use tracing_core::{span, Dispatch};
use tracing_subscriber::registry::Registry;
use tracing_subscriber::subscribe::{CollectExt, Subscribe};
use vp_engine::{kf, Isolation, Outcome, Property, Tier};
use vp_rec::Stepper;
use vp_sub::*;

const NT: usize = 2;
const NSLOT: usize = 4;

#[derive(Clone, Debug, Serialize, Deserialize, PartialEq)]
struct StackDesc {
    tree: Node,
    /// global filter layers; true = placed outside the tree (asked first), false = between the
    /// tree and the registry
    globals: Vec<(GFilter, bool)>,
    /// per leaf (DFS order): the leaf's event_enabled() vetoes events of this callsite
    #[serde(default)]
    veto: Vec<Option<u8>>,
}
#[derive(Clone, Debug, Serialize, Deserialize, PartialEq)]
enum Op {
    Event { t: u8, cs: u8 },
    /// an event with an explicit parent (`event!(parent: &span, ..)`), whatever is entered
    EventIn { t: u8, cs: u8, slot: u8 },
    Open { t: u8, cs: u8, slot: u8 },
    Enter { t: u8, slot: u8 },
    Exit { t: u8 },
    Close { t: u8, slot: u8 },
    Record { t: u8, slot: u8 },
    /// `tracing::enabled!`
    Probe { t: u8, cs: u8 },
    /// an event whose field expression panics after the callsite was found enabled (caught)
    Abort { t: u8, cs: u8 },
}
#[derive(Clone, Debug, Serialize, Deserialize)]
struct Case {
    stacks: Vec<StackDesc>,
    ops: Vec<Op>,
    #[serde(default)]
    no_steer: bool,
}

fn bomb() -> u64 {
    panic!("scripted panic inside a field expression")
}
macro_rules! sites {
    ($($idx:literal, $lvl:ident, $tgt:literal;)*) => {
        fn emit_event(i: u8) {
            match i { $($idx => tracing::event!(target: $tgt, Level::$lvl, cs = $idx as u64),)* _ => {} }
        }
        fn emit_event_in(i: u8, p: &Span) {
            match i { $($idx => tracing::event!(target: $tgt, parent: p, Level::$lvl, cs = $idx as u64),)* _ => {} }
        }
        fn make_span(i: u8) -> Span {
            match i { $($idx => tracing::span!(target: $tgt, Level::$lvl, "sp", cs = $idx as u64, x = tracing::field::Empty),)* _ => Span::none() }
        }
        fn probe(i: u8) -> bool {
            match i { $($idx => tracing::enabled!(target: $tgt, Level::$lvl),)* _ => false }
        }
        fn abort_event(i: u8) {
            match i { $($idx => tracing::event!(target: $tgt, Level::$lvl, cs = $idx as u64, boom = bomb()),)* _ => {} }
        }
    };
}
sites! {
    0, ERROR, "a"; 1, ERROR, "a::b"; 2, ERROR, "c";
    3, INFO, "a"; 4, INFO, "a::b"; 5, INFO, "c";
    6, TRACE, "a"; 7, TRACE, "a::b"; 8, TRACE, "c";
}
fn cs_level(cs: u8) -> u8 {
    LEVELS[(cs / 3) as usize]
}
fn cs_target(cs: u8) -> &'static str {
    TARGETS[(cs % 3) as usize]
}

#[derive(Default)]
struct TState {
    slots: Vec<Option<Span>>,
    entered: Vec<(Dispatch, span::Id)>,
    default: Option<DefaultGuard>,
}
impl Drop for TState {
    fn drop(&mut self) {
        while let Some((d, id)) = self.entered.pop() {
            d.exit(&id);
        }
        self.slots.clear();
        self.default.take();
    }
}

struct Built {
    dispatch: Dispatch,
    logs: Vec<LeafLog>,
    flat: Flat,
    globals: Vec<GFilter>,
    veto: Vec<Option<u8>>,
}
fn build(desc: &StackDesc) -> Built {
    let mut logs = vec![];
    let veto = desc.veto.clone();
    let tree = build_tree(&desc.tree, &mut logs, &mut |log, idx| {
        let mut l = RecLeaf::new(log);
        l.veto_cs = veto.get(idx).copied().flatten().map(|c| c as i64);
        l.boxed()
    });
    let mut combined: BS = tree;
    for (g, outer) in &desc.globals {
        let gb = g.build();
        combined = if *outer { combined.and_then(gb).boxed() } else { gb.and_then(combined).boxed() };
    }
    let dispatch = Dispatch::new(Registry::default().with(combined));
    Built { dispatch, logs, flat: flatten(&desc.tree), globals: desc.globals.iter().map(|g| g.0.clone()).collect(), veto: desc.veto.clone() }
}

#[derive(Clone, Debug)]
struct MSpan {
    id: Option<u64>,
    globals_ok: bool,
    acc: Vec<bool>,
}
struct MThread {
    slots: Vec<Option<usize>>,
    entered: Vec<usize>,
}

struct Eval {
    globals_ok: bool,
    acc: Vec<bool>,
}

const F3_SIG: &str = "F3: per-layer filter state left behind by an `enabled` check that is not followed by a dispatch (enabled! probe, emission aborted by a panicking field expression) makes a layer miss the next emission";

fn run_case(case: &Case) -> Outcome {
    let f3_open = kf::load("C07").iter().any(|f| f.id == "F3" && f.status == "open");
    let steer = f3_open && !case.no_steer;
    let nst = case.stacks.len().clamp(1, 2);
    let built: Vec<Built> = case.stacks.iter().take(2).map(build).collect();
    let mut st: Stepper<TState> = Stepper::new(NT);
    let mut spans: Vec<MSpan> = vec![];
    let mut th: Vec<MThread> = (0..NT).map(|_| MThread { slots: vec![None; NSLOT], entered: vec![] }).collect();
    let mut classes: Vec<String> = vec![];
    let mut excluded = 0u32;
    let mut dirty_possible = false;
    let (mut disagreeing_emission, mut pattern_changed) = (false, false);
    let mut last_pattern: [Option<Vec<bool>>; NT] = [None, None];

    for t in 0..NT {
        let d = built[t % nst].dispatch.clone();
        if let Err(e) = st.run(t, move |ts| {
            ts.slots = (0..NSLOT).map(|_| None).collect();
            ts.default = Some(dispatch::set_default(&d));
        }) {
            return Outcome::fail("panic: set_default", e);
        }
    }
    for b in &built {
        for l in &b.logs {
            l.lock().unwrap().clear();
        }
    }

    // innermost entered span of thread t visible through every filter in `chain`
    let view_current = |spans: &Vec<MSpan>, th: &Vec<MThread>, t: usize, chain: &[usize]| -> Option<u64> {
        th[t].entered.iter().rev().map(|s| &spans[*s]).find(|s| s.id.is_some() && s.globals_ok && chain.iter().all(|f| s.acc[*f])).and_then(|s| s.id)
    };
    let view_scope = |spans: &Vec<MSpan>, parents: &Vec<Option<usize>>, s: usize, chain: &[usize]| -> Vec<u64> {
        let mut out = vec![];
        let mut c = Some(s);
        while let Some(x) = c {
            let sp = &spans[x];
            if sp.id.is_some() && sp.globals_ok && chain.iter().all(|f| sp.acc[*f]) {
                out.push(sp.id.unwrap());
            }
            c = parents[x];
        }
        out
    };
    let mut parents: Vec<Option<usize>> = vec![];

    for (i, op) in case.ops.iter().enumerate() {
        let t = match op {
            Op::Event { t, .. } | Op::EventIn { t, .. } | Op::Open { t, .. } | Op::Enter { t, .. } | Op::Exit { t } | Op::Close { t, .. } | Op::Record { t, .. } | Op::Probe { t, .. } | Op::Abort { t, .. } => *t as usize % NT,
        };
        let k = t % nst;
        let b = &built[k];
        macro_rules! fail {
            ($sig:expr, $($arg:tt)*) => {{
                let sig: String = $sig.into();
                let sig = if dirty_possible { F3_SIG.to_string() } else { sig };
                let o = Outcome::fail(sig, format!("op #{} {:?}: {}", i, op, format!($($arg)*)));
                std::mem::forget(st);
                return o;
            }};
        }
        let evaluate = |spans: &Vec<MSpan>, th: &Vec<MThread>, cs: u8| -> Eval {
            let (lv, tg) = (cs_level(cs), cs_target(cs));
            let globals_ok = b.globals.iter().all(|g| g.accepts(lv, tg));
            let acc = (0..b.flat.filters.len()).map(|f| b.flat.filters[f].accepts(lv, tg, view_current(spans, th, t, &b.flat.chains[f]).is_some())).collect();
            Eval { globals_ok, acc }
        };
        // expected calls per leaf of this stack: (kind, id, cs, current, scope)
        let mut want: Vec<Vec<(LKind, u64, i64, Option<u64>, Option<Vec<u64>>)>> = vec![vec![]; b.logs.len()];
        let sees = |s: &MSpan, path: &[usize]| s.id.is_some() && s.globals_ok && path.iter().all(|f| s.acc[*f]);
        let mut run: Result<(), String> = Ok(());
        match *op {
            Op::Event { cs, .. } => {
                let cs = cs % 9;
                let ev = evaluate(&spans, &th, cs);
                let mut pattern = vec![];
                // a leaf whose own filters accept the event may veto it for everybody in
                // event_enabled()
                let vetoed = b.flat.leaf_paths.iter().enumerate().any(|(l, path)| b.veto.get(l).copied().flatten() == Some(cs) && ev.globals_ok && path.iter().all(|f| ev.acc[*f]));
                if vetoed {
                    classes.push("event_vetoed_by_event_enabled".into());
                }
                for (l, path) in b.flat.leaf_paths.iter().enumerate() {
                    let got = !vetoed && ev.globals_ok && path.iter().all(|f| ev.acc[*f]);
                    pattern.push(got);
                    if got {
                        let cur = view_current(&spans, &th, t, path);
                        // the event's scope as this leaf sees it: starts at the innermost entered
                        // span the leaf accepted, then that span's ancestors it accepted
                        let start = th[t].entered.iter().rev().copied().find(|s| sees(&spans[*s], path));
                        let scope = start.map(|s| view_scope(&spans, &parents, s, path));
                        want[l].push((LKind::Event, 0, cs as i64, cur, Some(scope.unwrap_or_default())));
                    }
                }
                if pattern.iter().any(|x| *x) && pattern.iter().any(|x| !*x) && b.flat.leaf_paths.iter().filter(|p| !p.is_empty()).count() >= 2 {
                    disagreeing_emission = true;
                }
                if let Some(p) = &last_pattern[t] {
                    if *p != pattern {
                        pattern_changed = true;
                    }
                }
                last_pattern[t] = Some(pattern);
                run = st.run(t, move |_| emit_event(cs));
            }
            Op::EventIn { cs, slot, .. } => {
                let (cs, s) = (cs % 9, slot as usize % NSLOT);
                let Some(x) = th[t].slots[s] else {
                    classes.push("op_skipped".into());
                    continue;
                };
                let ev = evaluate(&spans, &th, cs);
                let vetoed = b.flat.leaf_paths.iter().enumerate().any(|(l, path)| b.veto.get(l).copied().flatten() == Some(cs) && ev.globals_ok && path.iter().all(|f| ev.acc[*f]));
                for (l, path) in b.flat.leaf_paths.iter().enumerate() {
                    let got = !vetoed && ev.globals_ok && path.iter().all(|f| ev.acc[*f]);
                    if got {
                        let cur = view_current(&spans, &th, t, path);
                        // the event's span is its explicit parent if this leaf sees that span,
                        // otherwise the event has no span for this leaf (a disabled handle makes
                        // the event a root)
                        let scope = if sees(&spans[x], path) { view_scope(&spans, &parents, x, path) } else { vec![] };
                        want[l].push((LKind::Event, 0, cs as i64, cur, Some(scope)));
                    }
                }
                classes.push("event_with_explicit_parent".into());
                last_pattern[t] = None;
                run = st.run(t, move |ts| {
                    let p = ts.slots[s].clone().unwrap_or_else(Span::none);
                    emit_event_in(cs, &p)
                });
            }
            Op::Open { cs, slot, .. } => {
                let (cs, s) = (cs % 9, slot as usize % NSLOT);
                if th[t].slots[s].is_some() {
                    // an occupied slot must be closed explicitly first
                    classes.push("op_skipped".into());
                    continue;
                }
                let ev = evaluate(&spans, &th, cs);
                let idx = spans.len();
                let mut pattern = vec![];
                for (l, path) in b.flat.leaf_paths.iter().enumerate() {
                    let got = ev.globals_ok && path.iter().all(|f| ev.acc[*f]);
                    pattern.push(got);
                    if got {
                        let cur = view_current(&spans, &th, t, path);
                        want[l].push((LKind::NewSpan, u64::MAX, cs as i64, cur, None));
                    }
                }
                if pattern.iter().any(|x| *x) && pattern.iter().any(|x| !*x) && b.flat.leaf_paths.iter().filter(|p| !p.is_empty()).count() >= 2 {
                    disagreeing_emission = true;
                }
                if let Some(p) = &last_pattern[t] {
                    if *p != pattern {
                        pattern_changed = true;
                    }
                }
                last_pattern[t] = Some(pattern);
                spans.push(MSpan { id: None, globals_ok: ev.globals_ok, acc: ev.acc });
                parents.push(th[t].entered.last().copied());
                th[t].slots[s] = Some(idx);
                match st.run(t, move |ts| {
                    ts.slots[s] = None;
                    let sp = make_span(cs);
                    let id = sp.id().map(|i| i.into_u64());
                    ts.slots[s] = Some(sp);
                    id
                }) {
                    Ok(id) => spans[idx].id = id,
                    Err(e) => run = Err(e),
                }
                // a leaf that should see the span requires it to exist
                if run.is_ok() && spans[idx].id.is_none() && b.flat.leaf_paths.iter().any(|p| spans[idx].globals_ok && p.iter().all(|f| spans[idx].acc[*f])) {
                    fail!("span disabled although a layer's filters accept it", "callsite {cs} (level {} target {:?})", cs_level(cs), cs_target(cs));
                }
            }
            Op::Enter { slot, .. } => {
                let s = slot as usize % NSLOT;
                match th[t].slots[s] {
                    Some(x) if spans[x].id.is_some() && !th[t].entered.contains(&x) => {
                        th[t].entered.push(x);
                        for (l, path) in b.flat.leaf_paths.iter().enumerate() {
                            if sees(&spans[x], path) {
                                want[l].push((LKind::Enter, spans[x].id.unwrap(), -1, view_current(&spans, &th, t, path), Some(view_scope(&spans, &parents, x, path))));
                            }
                        }
                        run = st.run(t, move |ts| {
                            let pair = ts.slots[s].as_ref().unwrap().with_collector(|(id, d)| (d.clone(), id.clone())).unwrap();
                            pair.0.enter(&pair.1);
                            ts.entered.push(pair);
                        });
                    }
                    _ => {
                        classes.push("op_skipped".into());
                        continue;
                    }
                }
            }
            Op::Exit { .. } => match th[t].entered.pop() {
                None => {
                    classes.push("op_skipped".into());
                    continue;
                }
                Some(x) => {
                    for (l, path) in b.flat.leaf_paths.iter().enumerate() {
                        if sees(&spans[x], path) {
                            want[l].push((LKind::Exit, spans[x].id.unwrap(), -1, view_current(&spans, &th, t, path), None));
                        }
                    }
                    run = st.run(t, |ts| {
                        let (d, id) = ts.entered.pop().unwrap();
                        d.exit(&id);
                    });
                }
            },
            Op::Close { slot, .. } => {
                let s = slot as usize % NSLOT;
                match th[t].slots[s] {
                    Some(x) if !th[t].entered.contains(&x) && !spans.iter().enumerate().any(|(j, _)| parents[j] == Some(x) && th[t].slots.contains(&Some(j))) => {
                        th[t].slots[s] = None;
                        for (l, path) in b.flat.leaf_paths.iter().enumerate() {
                            if sees(&spans[x], path) {
                                want[l].push((LKind::Close, spans[x].id.unwrap(), -1, None, None));
                            }
                        }
                        run = st.run(t, move |ts| {
                            ts.slots[s] = None;
                        });
                    }
                    _ => {
                        classes.push("op_skipped".into());
                        continue;
                    }
                }
            }
            Op::Record { slot, .. } => {
                let s = slot as usize % NSLOT;
                match th[t].slots[s] {
                    Some(x) => {
                        for (l, path) in b.flat.leaf_paths.iter().enumerate() {
                            if sees(&spans[x], path) {
                                want[l].push((LKind::Record, spans[x].id.unwrap(), -1, None, None));
                            }
                        }
                        run = st.run(t, move |ts| {
                            ts.slots[s].as_ref().unwrap().record("x", 7u64);
                        });
                    }
                    None => {
                        classes.push("op_skipped".into());
                        continue;
                    }
                }
            }
            Op::Probe { cs, .. } => {
                let cs = cs % 9;
                // open finding F3: an `enabled!` probe that some per-layer filter rejects (while
                // the globals accept) leaves that filter's bit set in the thread-local state
                let ev = evaluate(&spans, &th, cs);
                let may_dirty = ev.globals_ok && ev.acc.iter().any(|a| !*a);
                // (F3 only bites an emission whose callsite interest is cached as `always`, where
                // enabled() is skipped and the stale bits are read. A global dynamic filter layer
                // in the stack answers `sometimes` for every callsite, so no callsite is ever
                // cached as `always`: the probe is run and everything after it judged strictly)
                let never_always = b.globals.iter().any(|g| matches!(g, GFilter::DynFn { .. }));
                if may_dirty && steer && !never_always {
                    excluded += 1;
                    continue;
                }
                if may_dirty && never_always {
                    classes.push("rejected_probe_or_aborted_emission_under_a_sometimes_layer".into());
                }
                let may_dirty = may_dirty && !never_always;
                if may_dirty {
                    dirty_possible = true;
                }
                classes.push("probe".into());
                run = st.run(t, move |_| {
                    let _ = probe(cs);
                });
            }
            Op::Abort { cs, .. } => {
                let cs = cs % 9;
                // open finding F3: if any per-layer filter of this stack rejects the metadata
                // while the globals accept it, the aborted emission may leave filter bits behind
                let ev = evaluate(&spans, &th, cs);
                let may_dirty = ev.globals_ok && ev.acc.iter().any(|a| !*a);
                // (F3 only bites an emission whose callsite interest is cached as `always`, where
                // enabled() is skipped and the stale bits are read. A global dynamic filter layer
                // in the stack answers `sometimes` for every callsite, so no callsite is ever
                // cached as `always`: the probe is run and everything after it judged strictly)
                let never_always = b.globals.iter().any(|g| matches!(g, GFilter::DynFn { .. }));
                if may_dirty && steer && !never_always {
                    excluded += 1;
                    continue;
                }
                if may_dirty && never_always {
                    classes.push("rejected_probe_or_aborted_emission_under_a_sometimes_layer".into());
                }
                let may_dirty = may_dirty && !never_always;
                if may_dirty {
                    dirty_possible = true;
                }
                classes.push("aborted_emission".into());
                run = st.run(t, move |_| {
                    let r = std::panic::catch_unwind(|| abort_event(cs));
                    // if the callsite is disabled the field expression is never evaluated
                    let _ = r;
                });
            }
        }
        if let Err(e) = run {
            fail!(format!("panic: {}", vp_engine::panic_signature(&e)), "{e}");
        }
        // parents: spans closed by Open-replacement need no bookkeeping beyond the expected Close
        // ---- compare
        for (kk, bb) in built.iter().enumerate() {
            for (l, log) in bb.logs.iter().enumerate() {
                let got: Vec<LCall> = std::mem::take(&mut *log.lock().unwrap());
                if kk != k {
                    if !got.is_empty() {
                        fail!("layer of another thread's stack was notified", "stack {kk} leaf {l}: {:?}", got.iter().map(|c| c.kind.clone()).collect::<Vec<_>>());
                    }
                    continue;
                }
                let w = &want[l];
                let gk: Vec<(LKind, i64)> = got.iter().map(|c| (c.kind.clone(), c.cs)).collect();
                let wk: Vec<(LKind, i64)> = w.iter().map(|c| (c.0.clone(), c.2)).collect();
                if gk != wk {
                    let what = match op {
                        Op::Event { .. } => "event",
                        Op::Open { .. } => "span",
                        _ => "span lifecycle notification",
                    };
                    let sig = if got.len() < w.len() {
                        format!("{what} not delivered to a layer whose filters accept it")
                    } else if got.len() > w.len() {
                        format!("{what} delivered to a layer whose filters reject it")
                    } else {
                        "layer saw different notifications".to_string()
                    };
                    fail!(sig, "stack {k} leaf {l} (filters on path {:?}): got {:?}, expected {:?}; stack = {}", b.flat.leaf_paths[l].iter().map(|f| &b.flat.filters[*f]).collect::<Vec<_>>(), gk, wk, serde_json::to_string(&case.stacks[k]).unwrap_or_default());
                }
                for (g, w) in got.iter().zip(w.iter()) {
                    if g.thread != t as u8 {
                        fail!("callback on the wrong thread", "leaf {l}: T{}", g.thread);
                    }
                    if w.1 != u64::MAX && w.0 != LKind::Event && g.id != w.1 {
                        fail!("notification for the wrong span", "leaf {l} {:?}: id {}, expected {}", w.0, g.id, w.1);
                    }
                    if matches!(w.0, LKind::Event | LKind::NewSpan | LKind::Enter | LKind::Exit) && g.current != w.3 {
                        fail!("lookup_current shows a span the layer's filter rejected (or hides one it accepted)", "leaf {l} inside {:?}: current {:?}, expected {:?}", w.0, g.current, w.3);
                    }
                    if let Some(sc) = &w.4 {
                        if &g.scope != sc {
                            fail!("scope shows a span the layer's filter rejected (or hides one it accepted)", "leaf {l} inside {:?}: scope {:?}, expected {:?}", w.0, g.scope, sc);
                        }
                    }
                }
            }
        }
    }
    if disagreeing_emission {
        classes.push("filtered_leaves_disagree".into());
    }
    if pattern_changed {
        classes.push("accept_pattern_changed_between_emissions".into());
    }
    if nst == 2 {
        classes.push("two_stacks".into());
    }
    classes.sort();
    classes.dedup();
    let r = std::panic::catch_unwind(std::panic::AssertUnwindSafe(move || {
        drop(st);
        drop(built);
    }));
    if r.is_err() {
        return Outcome::fail("panic: teardown", "dropping threads/collectors panicked");
    }
    let mut o = Outcome::pass(disagreeing_emission && pattern_changed, classes);
    o.excluded_known = excluded;
    o
}

struct C07;
impl Property for C07 {
    type Case = Case;
    fn id(&self) -> &'static str {
        "C07"
    }
    fn isolation(&self) -> Isolation {
        Isolation::Child
    }
    fn cases(&self, tier: Tier) -> u32 {
        tier.pick(30_000, 400_000)
    }
    fn strategy(&self, tier: Tier) -> BoxedStrategy<Case> {
        let t = || 0u8..NT as u8;
        let s = || 0u8..NSLOT as u8;
        let cs = || 0u8..9;
        let op = prop_oneof![
            8 => (t(), cs()).prop_map(|(t, cs)| Op::Event { t, cs }),
            3 => (t(), cs(), s()).prop_map(|(t, cs, slot)| Op::EventIn { t, cs, slot }),
            5 => (t(), cs(), s()).prop_map(|(t, cs, slot)| Op::Open { t, cs, slot }),
            4 => (t(), s()).prop_map(|(t, slot)| Op::Enter { t, slot }),
            3 => t().prop_map(|t| Op::Exit { t }),
            2 => (t(), s()).prop_map(|(t, slot)| Op::Close { t, slot }),
            1 => (t(), s()).prop_map(|(t, slot)| Op::Record { t, slot }),
            3 => (t(), cs()).prop_map(|(t, cs)| Op::Probe { t, cs }),
            1 => (t(), cs()).prop_map(|(t, cs)| Op::Abort { t, cs }),
        ];
        let stack = (node_strategy(true, 2), proptest::collection::vec((gfilter_strategy(), any::<bool>()), 0..3), proptest::collection::vec(proptest::option::weighted(0.12, 0u8..9), 6)).prop_map(|(tree, globals, veto)| StackDesc { tree, globals, veto });
        let max = tier.pick(30usize, 45usize);
        let general = (proptest::collection::vec(stack, 1..3), proptest::collection::vec(op.clone(), 1..max)).prop_map(|(stacks, ops)| Case { stacks, ops, no_steer: false });
        // template: a filtered layer inside a filtered subtree; a span the OUTER filter rejects and
        // the inner one accepts is entered, a descendant that both accept then goes through its
        // whole life cycle (the inner leaf has to see the filtered view in every callback)
        let nested = (prop_oneof![Just(1u8), Just(3u8)], 0u8..3, any::<bool>(), any::<bool>(), proptest::collection::vec(op, 0..6), proptest::collection::vec(proptest::option::weighted(0.1, 0u8..9), 6)).prop_map(|(r1, tg, sibling, inner_first, extra, veto)| {
            let inner = Node::Filtered(Box::new(Node::Leaf), FExpr::Level(5));
            let pair = if inner_first { Node::Layered(Box::new(inner), Box::new(Node::Leaf)) } else { Node::Layered(Box::new(Node::Leaf), Box::new(inner)) };
            let mut tree = Node::Filtered(Box::new(pair), FExpr::Level(r1));
            if sibling {
                tree = Node::Layered(Box::new(tree), Box::new(Node::Leaf));
            }
            // A: above the outer filter's level (TRACE, or INFO when the outer filter is ERROR)
            let a_cs = if r1 == 1 { 3 + tg } else { 6 + tg };
            let b_cs = tg; // ERROR: accepted by everybody
            let mut ops = if inner_first == sibling {
                vec![
                    Op::Open { t: 0, cs: a_cs, slot: 0 },
                    Op::Enter { t: 0, slot: 0 },
                    Op::Open { t: 0, cs: b_cs, slot: 1 },
                    Op::Enter { t: 0, slot: 1 },
                    Op::Record { t: 0, slot: 1 },
                    Op::Event { t: 0, cs: b_cs },
                    // a grandchild: walking up from it passes an accepted span before the
                    // rejected one
                    Op::Open { t: 0, cs: b_cs, slot: 2 },
                    Op::Enter { t: 0, slot: 2 },
                    Op::Event { t: 0, cs: b_cs },
                    Op::Exit { t: 0 },
                    Op::Close { t: 0, slot: 2 },
                    Op::Exit { t: 0 },
                    Op::Close { t: 0, slot: 1 },
                    Op::Exit { t: 0 },
                    Op::Close { t: 0, slot: 0 },
                ]
            } else {
                // second shape: the rejected span is NOT an ancestor of the accepted one - it was
                // created first and is entered on top of it; the filtered leaf's current span is
                // then the accepted span below it on the thread's stack
                vec![
                    Op::Open { t: 0, cs: a_cs, slot: 0 },
                    Op::Open { t: 0, cs: b_cs, slot: 1 },
                    Op::Enter { t: 0, slot: 1 },
                    Op::Enter { t: 0, slot: 0 },
                    Op::Event { t: 0, cs: b_cs },
                    Op::Open { t: 0, cs: b_cs, slot: 2 },
                    Op::Record { t: 0, slot: 1 },
                    Op::Exit { t: 0 },
                    Op::Event { t: 0, cs: b_cs },
                    Op::Exit { t: 0 },
                    Op::Close { t: 0, slot: 2 },
                    Op::Close { t: 0, slot: 0 },
                    Op::Close { t: 0, slot: 1 },
                ]
            };
            for (k, e) in extra.into_iter().enumerate() {
                let at = (k * 3 + 2).min(ops.len());
                ops.insert(at, e);
            }
            Case { stacks: vec![StackDesc { tree, globals: vec![], veto }], ops, no_steer: false }
        });
        prop_oneof![6 => general, 1 => nested].boxed()
    }
    fn run(&self, case: &Case) -> Outcome {
        run_case(case)
    }
    fn rule(&self) -> String {
        "case = 1-2 stacks (tree of <=6 recording leaves under plain/Filtered(nested)/Layered/Vec/Option/Box nodes with filters from level, targets, static env directives, filter_fn, a context-dependent dynamic_filter_fn and and/or/not to depth 2, plus 0-2 top-level global filter layers inside or outside the tree) x <=30 (thorough <=45) ops {Event,Open,Enter,Exit,Close,Record,enabled! probe,aborted emission}; leaves may veto one event callsite in event_enabled() through the real macros at 9 level x target callsites on 2 stepped threads (thread t uses stack t mod #stacks), fresh process per case. non-trivial: some emission is accepted by one filtered leaf and rejected by another (>=2 filtered leaves) and the accept pattern over the leaves differs between two consecutive emissions of a thread; distinct by (stacks, ops)".into()
    }
    fn assumptions(&self) -> Vec<String> {
        vec![
            "global filter layers are generated at top level only (inside a Filtered parent the code consults them only when the parent accepts, so 'every global filter accepts' has no layer-independent meaning there)".into(),
            "a context-dependent closure is evaluated by the model on the filtered view the code documents: spans accepted by the closure's own Filtered node and all Filtered nodes enclosing it".into(),
            "spans stay on the thread that created them and are exited LIFO (cross-thread and foreign-default histories are C05's subject)".into(),
            "open finding F3: enabled! probes and aborted emissions that some per-layer filter rejects (so that they could leave filter state behind) are not executed (excluded_known); the committed reproducers still run them".into(),
        ]
    }
}

fn main() {
    let _ = Arc::new(0);
    vp_engine::main(C07)
}
