//! Registry interpreter shared by C05 (a registry span closes exactly once, after its last
//! reference and last child) and C06 (current span, parent and scope mirror each thread's
//! enter/exit history).
//!
//! Two independent stacks `Registry + RecLayer(0) + ErrorSubscriber + RecLayer(1)` exist; each of
//! three stepped OS threads has one of them, or nothing, as its default. A generated program
//! creates/clones/drops/enters/exits spans, captures `Span::current()` and `SpanTrace`s and
//! emits events. After every operation
//!   * the callbacks each layer received (with what `ctx.span(id)`, its scope, its extensions
//!     and `ctx.lookup_current()` showed *inside* the callback) are compared with a
//!     reference-count / per-thread-stack model, and
//!   * every live span is looked up from outside (must be readable, right serial, right
//!     ancestor chain) and every closed id must be gone or belong to a newer span.

use proptest::prelude::*;
use serde::{Deserialize, Serialize};
use std::collections::HashMap;
use std::sync::{Arc, Mutex};
use tracing::span::{Entered, EnteredSpan};
use tracing::{Level, Span};
use tracing_core::dispatch::{self, DefaultGuard};
use tracing_core::{span, Dispatch, Event};
use tracing_error::{ErrorSubscriber, SpanTrace};
use tracing_subscriber::registry::{LookupSpan, Registry};
use tracing_subscriber::subscribe::{CollectExt, Context, Subscribe};
use vp_engine::{kf, pick, Isolation, Outcome, Property, Tier};
use vp_rec::Stepper;

const NT: usize = 3;
const NSLOT: usize = 6;
const NTRACE: usize = 2;

#[derive(Clone, Copy, Debug, PartialEq, Eq)]
pub enum Mode {
    C05,
    C06,
}

#[derive(Clone, Copy, Debug, Serialize, Deserialize, PartialEq)]
pub enum Parent {
    Contextual,
    Root,
    Explicit(u8),
}
#[derive(Clone, Copy, Debug, Serialize, Deserialize, PartialEq)]
pub enum Sel {
    R0,
    R1,
    NoDefault,
}
#[derive(Clone, Debug, Serialize, Deserialize, PartialEq)]
pub enum Op {
    Create { t: u8, slot: u8, parent: Parent, name: u8 },
    Clone { t: u8, from: u8, to: u8 },
    Drop { t: u8, slot: u8 },
    /// `span.enter()` (borrowed guard)
    Enter { t: u8, slot: u8 },
    /// `span.entered()` (guard owns the handle)
    Entered { t: u8, slot: u8 },
    /// drop any of the thread's guards (index picks one; u16::MAX = innermost)
    DropGuard { t: u8, g: u16 },
    Current { t: u8, to: u8 },
    Event { t: u8, parent: Parent },
    TraceCapture { t: u8, tr: u8 },
    TraceCheck { t: u8, tr: u8 },
    DropTrace { t: u8, tr: u8 },
    SwitchDefault { t: u8, sel: Sel },
    /// a body that enters the span, optionally emits an event, and panics; the guard is dropped by
    /// the unwinding and the panic is caught on the same thread, which then goes on
    PanicScope { t: u8, slot: u8, event: bool },
}
#[derive(Clone, Debug, Serialize, Deserialize)]
pub struct Case {
    pub ops: Vec<Op>,
    /// replay-only: execute operations that trigger open known finding F2 instead of steering
    /// around them
    #[serde(default)]
    pub no_steer: bool,
    /// instead of the ops: a chain of this many nested spans (each the explicit child of the
    /// previous one) with an event in the leaf, whose scope is read from leaf to root and from
    /// root to leaf (C06: long ancestor chains)
    #[serde(default)]
    pub deep: Option<u8>,
}

// ---- recording layer ---------------------------------------------------------------------

#[derive(Clone, Debug, PartialEq)]
pub enum LKind {
    NewSpan,
    Enter,
    Exit,
    Close,
    Event,
}
#[derive(Clone, Debug)]
pub struct LEntry {
    pub kind: LKind,
    pub thread: u8,
    pub id: u64,
    pub readable: bool,
    pub name: String,
    /// serial stored by *this* layer in the span's extensions at on_new_span (None = missing)
    pub serial: Option<u64>,
    /// extensions already held data of this layer when the span was created (stale storage)
    pub stale: bool,
    pub parent: Option<u64>,
    pub scope: Vec<u64>,
    pub from_root: Vec<u64>,
    pub current: Option<u64>,
}
struct Serials(Vec<(u8, u64)>);
/// further extension types, so that some spans carry ten types at once
struct Pad<const N: usize>(#[allow(dead_code)] u64);

struct SerialVisitor(Option<u64>);
impl tracing_core::field::Visit for SerialVisitor {
    fn record_u64(&mut self, f: &tracing_core::Field, v: u64) {
        if f.name() == "serial" {
            self.0 = Some(v)
        }
    }
    fn record_debug(&mut self, _: &tracing_core::Field, _: &dyn std::fmt::Debug) {}
}

pub struct RecLayer {
    layer: u8,
    log: Arc<Mutex<Vec<LEntry>>>,
}
impl RecLayer {
    fn observe<C: tracing_core::Collect + for<'a> LookupSpan<'a>>(&self, kind: LKind, id: &span::Id, ctx: &Context<'_, C>) -> LEntry {
        let mut e = LEntry {
            kind,
            thread: vp_rec::tag(),
            id: id.into_u64(),
            readable: false,
            name: String::new(),
            serial: None,
            stale: false,
            parent: None,
            scope: vec![],
            from_root: vec![],
            current: ctx.lookup_current().map(|s| s.id().into_u64()),
        };
        if let Some(s) = ctx.span(id) {
            e.readable = true;
            e.name = s.name().to_string();
            e.serial = s.extensions().get::<Serials>().and_then(|x| x.0.iter().find(|(l, _)| *l == self.layer).map(|(_, n)| *n));
            e.parent = s.parent().map(|p| p.id().into_u64());
            e.scope = s.scope().map(|x| x.id().into_u64()).collect();
            e.from_root = s.scope().from_root().map(|x| x.id().into_u64()).collect();
        }
        e
    }
}
impl<C: tracing_core::Collect + for<'a> LookupSpan<'a>> Subscribe<C> for RecLayer {
    fn on_new_span(&self, attrs: &span::Attributes<'_>, id: &span::Id, ctx: Context<'_, C>) {
        let mut v = SerialVisitor(None);
        attrs.record(&mut v);
        let mut stale = false;
        if let Some(s) = ctx.span(id) {
            let mut ext = s.extensions_mut();
            if let Some(x) = ext.get_mut::<Serials>() {
                if x.0.iter().any(|(l, _)| *l == self.layer) {
                    stale = true;
                }
                x.0.push((self.layer, v.0.unwrap_or(u64::MAX)));
            } else {
                ext.insert(Serials(vec![(self.layer, v.0.unwrap_or(u64::MAX))]));
            }
            // every fourth span gets nine more extension types from the first layer; a fresh span
            // never has any of them yet
            macro_rules! pads {
                ($($n:literal),*) => {{
                    $( if self.layer == 0 && ext.get_mut::<Pad<$n>>().is_some() { stale = true; } )*
                    if self.layer == 0 && v.0.unwrap_or(1) % 4 == 0 {
                        $( if ext.get_mut::<Pad<$n>>().is_none() { ext.insert(Pad::<$n>(v.0.unwrap_or(0))); } )*
                    }
                }};
            }
            pads!(0, 1, 2, 3, 4, 5, 6, 7, 8);
        }
        let mut e = self.observe(LKind::NewSpan, id, &ctx);
        e.stale = stale;
        self.log.lock().unwrap().push(e);
    }
    fn on_enter(&self, id: &span::Id, ctx: Context<'_, C>) {
        let e = self.observe(LKind::Enter, id, &ctx);
        self.log.lock().unwrap().push(e);
    }
    fn on_exit(&self, id: &span::Id, ctx: Context<'_, C>) {
        let e = self.observe(LKind::Exit, id, &ctx);
        self.log.lock().unwrap().push(e);
    }
    fn on_close(&self, id: span::Id, ctx: Context<'_, C>) {
        let e = self.observe(LKind::Close, &id, &ctx);
        self.log.lock().unwrap().push(e);
    }
    fn on_event(&self, event: &Event<'_>, ctx: Context<'_, C>) {
        let sp = ctx.event_span(event);
        let e = LEntry {
            kind: LKind::Event,
            thread: vp_rec::tag(),
            id: 0,
            readable: true,
            name: String::new(),
            serial: None,
            stale: false,
            parent: sp.as_ref().map(|s| s.id().into_u64()),
            scope: ctx.event_scope(event).map(|s| s.map(|x| x.id().into_u64()).collect()).unwrap_or_default(),
            from_root: ctx.event_scope(event).map(|s| s.from_root().map(|x| x.id().into_u64()).collect()).unwrap_or_default(),
            current: ctx.lookup_current().map(|s| s.id().into_u64()),
        };
        self.log.lock().unwrap().push(e);
    }
}

// ---- real-side state ---------------------------------------------------------------------

enum Guard {
    Borrowed { g: Entered<'static>, _keep: Arc<Span> },
    Owned(EnteredSpan),
}
#[derive(Default)]
struct TState {
    guards: Vec<Guard>,
    default: Option<DefaultGuard>,
}
impl Drop for TState {
    fn drop(&mut self) {
        while let Some(g) = self.guards.pop() {
            drop(g);
        }
        self.default.take();
    }
}

const NAMES: [&str; 3] = ["alpha", "beta", "gamma"];
macro_rules! mk {
    ($name:literal, $kind:expr, $p:expr, $serial:expr) => {
        match $kind {
            0 => tracing::span!(Level::INFO, $name, serial = $serial),
            1 => tracing::span!(parent: None, Level::INFO, $name, serial = $serial),
            _ => tracing::span!(parent: $p, Level::INFO, $name, serial = $serial),
        }
    };
}
fn make_span(name: u8, kind: u8, parent: Option<&Span>, serial: u64) -> Span {
    let none = Span::none();
    let p = parent.unwrap_or(&none);
    match name % 3 {
        0 => mk!("alpha", kind, p, serial),
        1 => mk!("beta", kind, p, serial),
        _ => mk!("gamma", kind, p, serial),
    }
}
fn emit_event(kind: u8, parent: Option<&Span>) {
    let none = Span::none();
    let p = parent.unwrap_or(&none);
    match kind {
        0 => tracing::info!(ev = 1u64),
        1 => tracing::info!(parent: None, ev = 1u64),
        _ => tracing::info!(parent: p, ev = 1u64),
    }
}

// ---- model -------------------------------------------------------------------------------

#[derive(Clone, Debug)]
struct MS {
    reg: usize,
    id: u64,
    serial: u64,
    name: &'static str,
    parent: Option<usize>,
    refs: i64,
    closed: bool,
}
#[derive(Clone, Copy, Debug, PartialEq)]
enum H {
    On(usize),
    Disabled,
    NoDispatch,
}
#[derive(Clone, Debug)]
enum MGuard {
    Borrowed { h: H, slot: usize },
    Owned { h: H },
}
#[derive(Clone, Debug)]
struct Want {
    kind: LKind,
    thread: usize,
    ms: Option<usize>,
    /// expected event parent / span parent
    parent: Option<usize>,
    /// expected ctx.lookup_current() inside the callback (None = not asserted)
    current: Option<Option<usize>>,
}

struct Model {
    spans: Vec<MS>,
    slots: Vec<Option<H>>,
    borrows: Vec<usize>,
    guards: Vec<Vec<MGuard>>,
    traces: Vec<Option<H>>,
    default: Vec<Sel>,
    /// per registry, per thread: (span, duplicate)
    stacks: [Vec<Vec<(usize, bool)>>; 2],
    want: [Vec<Want>; 2],
    next_serial: u64,
    /// an operation that triggers open finding F2 has been executed (no_steer replays only)
    f2_triggered: bool,
}

fn reg_of(sel: Sel) -> Option<usize> {
    match sel {
        Sel::R0 => Some(0),
        Sel::R1 => Some(1),
        Sel::NoDefault => None,
    }
}

impl Model {
    fn chain(&self, m: usize) -> Vec<usize> {
        let mut v = vec![m];
        let mut c = m;
        while let Some(p) = self.spans[c].parent {
            v.push(p);
            c = p;
        }
        v
    }
    /// the registry's notion of the thread's current span: most recent non-duplicate entry
    fn cur(&self, r: usize, t: usize) -> Option<usize> {
        self.stacks[r][t].iter().rev().find(|(_, d)| !*d).map(|(m, _)| *m)
    }
    fn has_dup(&self, r: usize, t: usize) -> bool {
        self.stacks[r][t].iter().any(|(_, d)| *d)
    }
    fn cur_assert(&self, r: usize, t: usize) -> Option<Option<usize>> {
        if self.has_dup(r, t) {
            None
        } else {
            Some(self.stacks[r][t].last().map(|(m, _)| *m))
        }
    }
    /// would releasing one reference of `m` on thread `t` close a span that has a parent
    /// while the thread's default is not the span's own registry? (finding F2, clause b)
    fn release_triggers_f2(&self, m: usize, t: usize) -> bool {
        let own = reg_of(self.default[t]) == Some(self.spans[m].reg);
        !own && self.spans[m].refs == 1 && self.spans[m].parent.is_some()
    }
    fn release(&mut self, m: usize, t: usize) {
        let mut c = Some(m);
        while let Some(x) = c {
            self.spans[x].refs -= 1;
            if self.spans[x].refs > 0 {
                break;
            }
            self.spans[x].closed = true;
            let r = self.spans[x].reg;
            let cur = self.cur_assert(r, t).filter(|_| reg_of(self.default[t]) == Some(r));
            self.want[r].push(Want { kind: LKind::Close, thread: t, ms: Some(x), parent: self.spans[x].parent, current: cur });
            c = self.spans[x].parent;
        }
    }
    fn release_h(&mut self, h: H, t: usize) {
        if let H::On(m) = h {
            self.release(m, t)
        }
    }
    fn enter(&mut self, h: H, t: usize) {
        if let H::On(m) = h {
            let r = self.spans[m].reg;
            let dup = self.stacks[r][t].iter().any(|(x, _)| *x == m);
            self.stacks[r][t].push((m, dup));
            if !dup {
                self.spans[m].refs += 1;
            }
            let cur = self.cur_assert(r, t).filter(|_| reg_of(self.default[t]) == Some(r));
            self.want[r].push(Want { kind: LKind::Enter, thread: t, ms: Some(m), parent: None, current: cur });
        }
    }
    /// returns true when the exit pops a non-duplicate entry (the registry then releases a ref
    /// through the thread's *default* dispatcher: F2 clause a)
    fn exit_pops_nondup(&self, h: H, t: usize) -> bool {
        if let H::On(m) = h {
            let r = self.spans[m].reg;
            if let Some(p) = self.stacks[r][t].iter().rposition(|(x, _)| *x == m) {
                return !self.stacks[r][t][p].1;
            }
        }
        false
    }
    fn exit(&mut self, h: H, t: usize) {
        if let H::On(m) = h {
            let r = self.spans[m].reg;
            let mut nondup = false;
            if let Some(p) = self.stacks[r][t].iter().rposition(|(x, _)| *x == m) {
                nondup = !self.stacks[r][t][p].1;
                self.stacks[r][t].remove(p);
            }
            if nondup {
                // released through the stack (on_close, if any, precedes on_exit)
                self.release(m, t);
            }
            let cur = self.cur_assert(r, t).filter(|_| reg_of(self.default[t]) == Some(r));
            self.want[r].push(Want { kind: LKind::Exit, thread: t, ms: Some(m), parent: None, current: cur });
        }
    }
    fn current(&mut self, t: usize) -> H {
        match reg_of(self.default[t]) {
            Some(r) => match self.cur(r, t) {
                Some(m) => {
                    self.spans[m].refs += 1;
                    H::On(m)
                }
                None => H::Disabled,
            },
            None => H::Disabled,
        }
    }
}

pub struct RegProp {
    pub mode: Mode,
}

struct Stack {
    dispatch: Dispatch,
    logs: [Arc<Mutex<Vec<LEntry>>>; 2],
}
fn build_stack() -> Stack {
    let l0 = Arc::new(Mutex::new(vec![]));
    let l1 = Arc::new(Mutex::new(vec![]));
    let c = Registry::default()
        .with(RecLayer { layer: 0, log: l0.clone() })
        .with(ErrorSubscriber::default())
        .with(RecLayer { layer: 1, log: l1.clone() });
    Stack { dispatch: Dispatch::new(c), logs: [l0, l1] }
}

type Slots = Arc<Mutex<Vec<Option<Arc<Span>>>>>;
type Traces = Arc<Mutex<Vec<Option<SpanTrace>>>>;

const F2_SIG: &str = "F2: span exited or closed (with a parent) while the thread's default is not the span's own collector";

struct DeepCs(usize);
static DEEP_CS: [DeepCs; 2] = [DeepCs(0), DeepCs(1)];
static DEEP_METAS: [tracing_core::Metadata<'static>; 2] = [
    tracing_core::Metadata::new("deep", "c06::deep", tracing_core::Level::INFO, None, None, None, tracing_core::field::FieldSet::new(&[], tracing_core::identify_callsite!(&DEEP_CS[0])), tracing_core::metadata::Kind::SPAN),
    tracing_core::Metadata::new("deep_ev", "c06::deep", tracing_core::Level::INFO, None, None, None, tracing_core::field::FieldSet::new(&[], tracing_core::identify_callsite!(&DEEP_CS[1])), tracing_core::metadata::Kind::EVENT),
];
impl tracing_core::callsite::Callsite for DeepCs {
    fn set_interest(&self, _: tracing_core::Interest) {}
    fn metadata(&self) -> &tracing_core::Metadata<'_> {
        &DEEP_METAS[self.0]
    }
}
fn universe_cs() -> &'static [DeepCs; 2] {
    &DEEP_CS
}

/// C06, long chains: `depth` nested spans (explicit parents), an event in the leaf; a recording
/// layer reads the event's scope in both directions and every span's own scope.
fn run_deep(depth: usize) -> Outcome {
    use tracing_subscriber::subscribe::CollectExt;
    #[derive(Default)]
    struct Seen {
        leaf_to_root: Vec<u64>,
        root_to_leaf: Vec<u64>,
        per_span_ok: bool,
        problems: Vec<String>,
    }
    struct DeepLayer(Arc<Mutex<Seen>>);
    impl<C: tracing_core::Collect + for<'a> LookupSpan<'a>> tracing_subscriber::subscribe::Subscribe<C> for DeepLayer {
        fn on_event(&self, ev: &tracing_core::Event<'_>, ctx: tracing_subscriber::subscribe::Context<'_, C>) {
            let mut s = self.0.lock().unwrap();
            if let Some(sc) = ctx.event_scope(ev) {
                s.leaf_to_root = sc.map(|x| x.id().into_u64()).collect();
            }
            if let Some(sc) = ctx.event_scope(ev) {
                s.root_to_leaf = sc.from_root().map(|x| x.id().into_u64()).collect();
            }
            // every ancestor's own scope is the suffix of the chain
            s.per_span_ok = true;
            let chain = s.leaf_to_root.clone();
            for (k, id) in chain.iter().enumerate() {
                if let Some(sp) = ctx.span(&tracing_core::span::Id::from_u64(*id)) {
                    let own: Vec<u64> = sp.scope().map(|x| x.id().into_u64()).collect();
                    let own_rev: Vec<u64> = sp.scope().from_root().map(|x| x.id().into_u64()).collect();
                    let mut want_rev = chain[k..].to_vec();
                    want_rev.reverse();
                    if own != chain[k..] || own_rev != want_rev {
                        s.per_span_ok = false;
                        s.problems.push(format!("span {id}: scope {own:?} / from_root {own_rev:?}, expected {:?} / {want_rev:?}", &chain[k..]));
                    }
                } else {
                    s.per_span_ok = false;
                    s.problems.push(format!("span {id} of the event's scope is not in the registry"));
                }
            }
        }
    }
    let seen = Arc::new(Mutex::new(Seen::default()));
    let d = Dispatch::new(Registry::default().with(DeepLayer(seen.clone())));
    let cs = &universe_cs()[0];
    let meta = tracing_core::callsite::Callsite::metadata(cs);
    let vs = meta.fields().value_set(&[]);
    let mut ids: Vec<tracing_core::span::Id> = Vec::new();
    for k in 0..depth {
        let attrs = match ids.last() {
            Some(p) => tracing_core::span::Attributes::child_of(p.clone(), meta, &vs),
            None => tracing_core::span::Attributes::new_root(meta, &vs),
        };
        let _ = k;
        ids.push(d.new_span(&attrs));
    }
    let ev_meta = tracing_core::callsite::Callsite::metadata(&universe_cs()[1]);
    let evs = ev_meta.fields().value_set(&[]);
    d.event(&tracing_core::Event::new_child_of(ids.last().cloned(), ev_meta, &evs));
    let want_l2r: Vec<u64> = ids.iter().rev().map(|i| i.into_u64()).collect();
    let want_r2l: Vec<u64> = ids.iter().map(|i| i.into_u64()).collect();
    let s = seen.lock().unwrap();
    let out = if s.leaf_to_root != want_l2r {
        Outcome::fail("event scope is not the chain of ancestors from leaf to root", format!("depth {depth}: {:?}, expected {want_l2r:?}", s.leaf_to_root))
    } else if s.root_to_leaf != want_r2l {
        Outcome::fail("event scope from_root is not root to leaf", format!("depth {depth}: {:?}, expected {want_r2l:?}", s.root_to_leaf))
    } else if !s.per_span_ok {
        Outcome::fail("scope from_root is not root to leaf", format!("depth {depth}: {:?}", s.problems.first()))
    } else {
        Outcome::pass(depth >= 3, vec![if depth > 16 { "deep_chain_over_16".to_string() } else { "deep_chain".to_string() }])
    };
    drop(s);
    for i in ids.into_iter().rev() {
        d.try_close(i);
    }
    out
}

fn run_case(mode: Mode, case: &Case) -> Outcome {
    if let Some(n) = case.deep {
        return run_deep((n as usize).clamp(1, 64));
    }
    let f2_open = kf::load("C05").iter().any(|f| f.id == "F2" && f.status == "open");
    let steer = f2_open && !case.no_steer;
    let stacks = [build_stack(), build_stack()];
    let slots: Slots = Arc::new(Mutex::new((0..NSLOT).map(|_| None).collect()));
    let traces: Traces = Arc::new(Mutex::new((0..NTRACE).map(|_| None).collect()));
    let mut st: Stepper<TState> = Stepper::new(NT);
    let mut m = Model {
        spans: vec![],
        slots: vec![None; NSLOT],
        borrows: vec![0; NSLOT],
        guards: vec![vec![]; NT],
        traces: vec![None; NTRACE],
        default: vec![Sel::NoDefault; NT],
        stacks: [vec![vec![]; NT], vec![vec![]; NT]],
        want: [vec![], vec![]],
        next_serial: 1,
        f2_triggered: false,
    };
    let mut classes: Vec<String> = vec![];
    let mut excluded = 0u32;
    let (mut drop_while_entered, mut parent_before_child, mut ooo_exit, mut cross_thread_drop) = (false, false, false, false);
    let (mut depth3, mut two_thread_enter, mut trace_outlives) = (false, false, false);
    let mut creator: HashMap<usize, usize> = HashMap::new();

    let mut ops: Vec<Op> = case.ops.clone();
    let user_len = ops.len();
    let mut teardown_built = false;
    let mut i = 0;
    loop {
        if i == ops.len() {
            if teardown_built {
                break;
            }
            teardown_built = true;
            // deterministic teardown: every thread returns to the default of the spans it still
            // holds entered (so that teardown itself never triggers F2), then guards, traces,
            // slots are released through the checked path
            for t in 0..NT {
                for _ in 0..m.guards[t].len() {
                    ops.push(Op::DropGuard { t: t as u8, g: u16::MAX });
                }
            }
            for tr in 0..NTRACE {
                ops.push(Op::DropTrace { t: 0, tr: tr as u8 });
            }
            for s in 0..NSLOT {
                ops.push(Op::Drop { t: (s % NT) as u8, slot: s as u8 });
            }
            if i == ops.len() {
                break;
            }
        }
        let teardown = i >= user_len;
        // steer ops towards occupied slots (k-th occupied) in the generated part
        let op = {
            let occ: Vec<u8> = (0..NSLOT).filter(|s| m.slots[*s].is_some()).map(|s| s as u8).collect();
            let o = |s: u8| if occ.is_empty() || teardown { s } else { occ[s as usize % occ.len()] };
            match ops[i].clone() {
                Op::Clone { t, from, to } => Op::Clone { t, from: o(from), to },
                Op::Drop { t, slot } => Op::Drop { t, slot: o(slot) },
                Op::Enter { t, slot } => Op::Enter { t, slot: o(slot) },
                Op::Entered { t, slot } => Op::Entered { t, slot: o(slot) },
                Op::PanicScope { t, slot, event } => Op::PanicScope { t, slot: o(slot), event },
                Op::Create { t, slot, parent: Parent::Explicit(p), name } => Op::Create { t, slot, parent: Parent::Explicit(o(p)), name },
                Op::Event { t, parent: Parent::Explicit(p) } => Op::Event { t, parent: Parent::Explicit(o(p)) },
                other => other,
            }
        };
        m.want = [vec![], vec![]];
        macro_rules! fail {
            ($sig:expr, $($arg:tt)*) => {{
                let sig: String = $sig.into();
                let sig = if m.f2_triggered { F2_SIG.to_string() } else { sig };
                let o = Outcome::fail(sig, format!("op #{}{} {:?}: {}", i, if teardown { " (teardown)" } else { "" }, op, format!($($arg)*)));
                std::mem::forget(st);
                return o;
            }};
        }
        // In teardown a thread whose default is foreign to the span switches to the span's own
        // registry first (teardown must not itself trigger F2).
        macro_rules! own_default_for {
            ($t:expr, $h:expr) => {{
                if teardown {
                    if let H::On(x) = $h {
                        let r = m.spans[x].reg;
                        if reg_of(m.default[$t]) != Some(r) {
                            m.default[$t] = if r == 0 { Sel::R0 } else { Sel::R1 };
                            let d = stacks[r].dispatch.clone();
                            if let Err(e) = st.run($t, move |ts| {
                                ts.default.take();
                                ts.default = Some(dispatch::set_default(&d));
                            }) {
                                fail!("panic: set_default", "{e}");
                            }
                        }
                    }
                }
            }};
        }
        let free = |m: &Model, s: usize| m.borrows[s] == 0;
        // drop the occupant of slot s on thread t (model + real); returns false if steering
        // forbids it
        macro_rules! vacate {
            ($t:expr, $s:expr) => {{
                let mut ok = true;
                if let Some(h) = m.slots[$s] {
                    own_default_for!($t, h);
                    if let H::On(x) = h {
                        if m.release_triggers_f2(x, $t) {
                            if steer {
                                ok = false;
                            } else {
                                m.f2_triggered = true;
                            }
                        }
                    }
                    if ok {
                        m.slots[$s] = None;
                        if let H::On(x) = h {
                            if m.spans[x].refs > 1 && m.stacks[m.spans[x].reg].iter().any(|st| st.iter().any(|(y, _)| *y == x)) {
                                drop_while_entered = true;
                            }
                            if creator.get(&x) != Some(&$t) {
                                cross_thread_drop = true;
                            }
                            if m.spans.iter().any(|c| !c.closed && c.parent == Some(x)) && m.spans[x].refs > 1 {
                                parent_before_child = true;
                            }
                        }
                        m.release_h(h, $t);
                        let sl = slots.clone();
                        let s = $s;
                        if let Err(e) = st.run($t, move |_| {
                            let old = sl.lock().unwrap()[s].take();
                            drop(old);
                        }) {
                            fail!(format!("panic: {}", vp_engine::panic_signature(&e)), "{e}");
                        }
                    }
                }
                ok
            }};
        }
        let mut skipped = false;
        let mut created: Option<(usize, usize)> = None; // (slot, ms) whose id must be filled in
        let r: Result<(), String> = match op.clone() {
            Op::Create { t, slot, parent, name } => {
                let (t, s) = (t as usize % NT, slot as usize % NSLOT);
                let d = reg_of(m.default[t]);
                // explicit parent must belong to the registry that will create the span
                let par: Result<Option<usize>, ()> = match (parent, d) {
                    (_, None) => Ok(None),
                    (Parent::Root, _) => Ok(None),
                    (Parent::Contextual, Some(r)) => Ok(m.cur(r, t)),
                    (Parent::Explicit(p), Some(r)) => match m.slots[p as usize % NSLOT] {
                        Some(H::On(x)) if m.spans[x].reg == r => Ok(Some(x)),
                        Some(H::On(_)) | Some(H::NoDispatch) => Err(()),
                        _ => Ok(None),
                    },
                };
                let explicit_same_slot = matches!(parent, Parent::Explicit(p) if p as usize % NSLOT == s);
                if par.is_err() || !free(&m, s) || explicit_same_slot {
                    skipped = true;
                    Ok(())
                } else if !vacate!(t, s) {
                    excluded += 1;
                    Ok(())
                } else {
                    let par = par.unwrap();
                    let serial = m.next_serial;
                    m.next_serial += 1;
                    match d {
                        None => m.slots[s] = Some(H::NoDispatch),
                        Some(r) => {
                            let idx = m.spans.len();
                            m.spans.push(MS { reg: r, id: 0, serial, name: NAMES[name as usize % 3], parent: par, refs: 1, closed: false });
                            if let Some(p) = par {
                                m.spans[p].refs += 1;
                            }
                            if m.chain(idx).len() >= 3 {
                                depth3 = true;
                            }
                            m.slots[s] = Some(H::On(idx));
                            creator.insert(idx, t);
                            let cur = m.cur_assert(r, t);
                            m.want[r].push(Want { kind: LKind::NewSpan, thread: t, ms: Some(idx), parent: par, current: cur });
                            created = Some((s, idx));
                        }
                    }
                    let sl = slots.clone();
                    st.run(t, move |_| {
                        let (kind, par) = match parent {
                            Parent::Contextual => (0, None),
                            Parent::Root => (1, None),
                            Parent::Explicit(p) => (2, sl.lock().unwrap()[p as usize % NSLOT].clone()),
                        };
                        let sp = make_span(name, kind, par.as_deref(), serial);
                        sl.lock().unwrap()[s] = Some(Arc::new(sp));
                    })
                }
            }
            Op::Clone { t, from, to } => {
                let (t, f, s) = (t as usize % NT, from as usize % NSLOT, to as usize % NSLOT);
                if m.slots[f].is_none() || f == s || !free(&m, s) {
                    skipped = true;
                    Ok(())
                } else if !vacate!(t, s) {
                    excluded += 1;
                    Ok(())
                } else {
                    let h = m.slots[f].unwrap();
                    if let H::On(x) = h {
                        m.spans[x].refs += 1;
                    }
                    m.slots[s] = Some(h);
                    let sl = slots.clone();
                    st.run(t, move |_| {
                        let c = Span::clone(sl.lock().unwrap()[f].as_ref().unwrap());
                        sl.lock().unwrap()[s] = Some(Arc::new(c));
                    })
                }
            }
            Op::Drop { t, slot } => {
                let (t, s) = (t as usize % NT, slot as usize % NSLOT);
                if m.slots[s].is_none() || !free(&m, s) {
                    skipped = true;
                } else if !vacate!(t, s) {
                    excluded += 1;
                }
                Ok(())
            }
            Op::Enter { t, slot } => {
                let (t, s) = (t as usize % NT, slot as usize % NSLOT);
                match m.slots[s] {
                    None => {
                        skipped = true;
                        Ok(())
                    }
                    Some(h) => {
                        if let H::On(x) = h {
                            let r = m.spans[x].reg;
                            if (0..NT).any(|u| u != t && m.stacks[r][u].iter().any(|(y, _)| *y == x)) {
                                two_thread_enter = true;
                            }
                        }
                        m.enter(h, t);
                        m.borrows[s] += 1;
                        m.guards[t].push(MGuard::Borrowed { h, slot: s });
                        let sl = slots.clone();
                        st.run(t, move |ts| {
                            let keep = sl.lock().unwrap()[s].clone().unwrap();
                            let g: Entered<'_> = keep.enter();
                            // SAFETY: `keep` is stored next to the guard and dropped after it.
                            let g: Entered<'static> = unsafe { std::mem::transmute(g) };
                            ts.guards.push(Guard::Borrowed { g, _keep: keep });
                        })
                    }
                }
            }
            Op::PanicScope { t, slot, event } => {
                let (t, s) = (t as usize % NT, slot as usize % NSLOT);
                match m.slots[s] {
                    // (only under the span's own registry: an exit under a foreign default is F2)
                    Some(H::On(x)) if reg_of(m.default[t]) == Some(m.spans[x].reg) => {
                        let h = H::On(x);
                        let r = m.spans[x].reg;
                        m.enter(h, t);
                        if event {
                            let assert_parent = !m.has_dup(r, t);
                            let cur = m.cur_assert(r, t);
                            let par = m.cur(r, t);
                            m.want[r].push(Want { kind: LKind::Event, thread: t, ms: None, parent: if assert_parent { par } else { None }, current: if assert_parent { cur } else { None } });
                            if !assert_parent {
                                m.want[r].last_mut().unwrap().ms = Some(usize::MAX);
                            }
                        }
                        m.exit(h, t);
                        classes.push("guard_dropped_by_unwinding".into());
                        let sl = slots.clone();
                        st.run(t, move |_| {
                            let keep = sl.lock().unwrap()[s].clone().unwrap();
                            let r = std::panic::catch_unwind(std::panic::AssertUnwindSafe(|| {
                                let _g = keep.enter();
                                if event {
                                    emit_event(0, None);
                                }
                                panic!("scripted panic inside an entered span");
                            }));
                            assert!(r.is_err());
                        })
                    }
                    _ => {
                        skipped = true;
                        Ok(())
                    }
                }
            }
            Op::Entered { t, slot } => {
                let (t, s) = (t as usize % NT, slot as usize % NSLOT);
                if m.slots[s].is_none() || !free(&m, s) {
                    skipped = true;
                    Ok(())
                } else {
                    let h = m.slots[s].take().unwrap();
                    if let H::On(x) = h {
                        let r = m.spans[x].reg;
                        if (0..NT).any(|u| u != t && m.stacks[r][u].iter().any(|(y, _)| *y == x)) {
                            two_thread_enter = true;
                        }
                    }
                    m.enter(h, t);
                    m.guards[t].push(MGuard::Owned { h });
                    let sl = slots.clone();
                    st.run(t, move |ts| {
                        let sp = sl.lock().unwrap()[s].take().unwrap();
                        let sp = Arc::try_unwrap(sp).ok().expect("unborrowed slot is unique");
                        ts.guards.push(Guard::Owned(sp.entered()));
                    })
                }
            }
            Op::DropGuard { t, g } => {
                let t = t as usize % NT;
                let n = m.guards[t].len();
                if n == 0 {
                    skipped = true;
                    Ok(())
                } else {
                    let gi = if g == u16::MAX { n - 1 } else { pick(g, n) };
                    let (h, owned) = match &m.guards[t][gi] {
                        MGuard::Borrowed { h, .. } => (*h, false),
                        MGuard::Owned { h } => (*h, true),
                    };
                    own_default_for!(t, h);
                    // F2 clause a: a non-duplicate exit releases through the thread's default;
                    // clause b: the handle drop of an owned guard may close a span with parent
                    let mut trig = false;
                    if let H::On(x) = h {
                        let own = reg_of(m.default[t]) == Some(m.spans[x].reg);
                        if !own && m.exit_pops_nondup(h, t) {
                            trig = true;
                        }
                        if !own && owned && m.spans[x].parent.is_some() {
                            let after_exit = m.spans[x].refs - if m.exit_pops_nondup(h, t) { 1 } else { 0 };
                            if after_exit == 1 {
                                trig = true;
                            }
                        }
                    }
                    if trig && steer {
                        excluded += 1;
                        Ok(())
                    } else {
                        if trig {
                            m.f2_triggered = true;
                        }
                        if gi != n - 1 {
                            ooo_exit = true;
                        }
                        match m.guards[t].remove(gi) {
                            MGuard::Borrowed { h, slot } => {
                                m.exit(h, t);
                                m.borrows[slot] -= 1;
                            }
                            MGuard::Owned { h } => {
                                m.exit(h, t);
                                m.release_h(h, t);
                            }
                        }
                        st.run(t, move |ts| {
                            let g = ts.guards.remove(gi);
                            drop(g);
                        })
                    }
                }
            }
            Op::Current { t, to } => {
                let (t, s) = (t as usize % NT, to as usize % NSLOT);
                if !free(&m, s) {
                    skipped = true;
                    Ok(())
                } else if !vacate!(t, s) {
                    excluded += 1;
                    Ok(())
                } else {
                    let h = m.current(t);
                    m.slots[s] = Some(h);
                    if matches!(h, H::On(_)) {
                        classes.push("current_captured".into());
                    }
                    let sl = slots.clone();
                    st.run(t, move |_| {
                        let c = Span::current();
                        sl.lock().unwrap()[s] = Some(Arc::new(c));
                    })
                }
            }
            Op::Event { t, parent } => {
                let t = t as usize % NT;
                let d = reg_of(m.default[t]);
                let par: Result<Option<usize>, ()> = match (parent, d) {
                    (_, None) => Ok(None),
                    (Parent::Root, _) => Ok(None),
                    (Parent::Contextual, Some(r)) => Ok(m.cur(r, t)),
                    (Parent::Explicit(p), Some(r)) => match m.slots[p as usize % NSLOT] {
                        Some(H::On(x)) if m.spans[x].reg == r => Ok(Some(x)),
                        Some(H::On(_)) | Some(H::NoDispatch) => Err(()),
                        _ => Ok(None),
                    },
                };
                match par {
                    Err(()) => {
                        skipped = true;
                        Ok(())
                    }
                    Ok(par) => {
                        if let Some(r) = d {
                            // contextual parent is asserted only without same-thread re-entry
                            let assert_parent = !(parent == Parent::Contextual && m.has_dup(r, t));
                            let cur = m.cur_assert(r, t);
                            m.want[r].push(Want { kind: LKind::Event, thread: t, ms: None, parent: if assert_parent { par } else { None }, current: if assert_parent { cur } else { None } });
                            if !assert_parent {
                                m.want[r].last_mut().unwrap().ms = Some(usize::MAX); // marker: parent not asserted
                            }
                        }
                        let sl = slots.clone();
                        st.run(t, move |_| {
                            let (kind, par) = match parent {
                                Parent::Contextual => (0, None),
                                Parent::Root => (1, None),
                                Parent::Explicit(p) => (2, sl.lock().unwrap()[p as usize % NSLOT].clone()),
                            };
                            emit_event(kind, par.as_deref());
                        })
                    }
                }
            }
            Op::TraceCapture { t, tr } => {
                let (t, k) = (t as usize % NT, tr as usize % NTRACE);
                if m.traces[k].is_some() {
                    skipped = true;
                    Ok(())
                } else {
                    let h = m.current(t);
                    m.traces[k] = Some(h);
                    let tl = traces.clone();
                    st.run(t, move |_| {
                        let tr = SpanTrace::capture();
                        tl.lock().unwrap()[k] = Some(tr);
                    })
                }
            }
            Op::TraceCheck { t, tr } => {
                let (t, k) = (t as usize % NT, tr as usize % NTRACE);
                match m.traces[k] {
                    None => {
                        skipped = true;
                        Ok(())
                    }
                    Some(h) => {
                        let want: Vec<String> = match h {
                            H::On(x) => m.chain(x).iter().map(|y| m.spans[*y].name.to_string()).collect(),
                            _ => vec![],
                        };
                        if let H::On(x) = h {
                            // every handle of every span in the chain gone, only the trace keeps it
                            let held: Vec<usize> = m.slots.iter().flatten().filter_map(|h| if let H::On(y) = h { Some(*y) } else { None }).collect();
                            if m.chain(x).iter().all(|y| !held.contains(y)) {
                                trace_outlives = true;
                            }
                        }
                        let tl = traces.clone();
                        let got = st.run(t, move |_| {
                            let g = tl.lock().unwrap();
                            let mut names = vec![];
                            g[k].as_ref().unwrap().with_spans(|meta, _fields| {
                                names.push(meta.name().to_string());
                                true
                            });
                            names
                        });
                        match got {
                            Ok(names) => {
                                if mode == Mode::C06 && names != want {
                                    fail!("SpanTrace chain differs from the ancestors at capture time", "with_spans yielded {names:?}, expected {want:?}");
                                }
                                Ok(())
                            }
                            Err(e) => Err(e),
                        }
                    }
                }
            }
            Op::DropTrace { t, tr } => {
                let (t, k) = (t as usize % NT, tr as usize % NTRACE);
                match m.traces[k] {
                    None => {
                        skipped = true;
                        Ok(())
                    }
                    Some(h) => {
                        own_default_for!(t, h);
                        let trig = matches!(h, H::On(x) if m.release_triggers_f2(x, t));
                        if trig && steer {
                            excluded += 1;
                            Ok(())
                        } else {
                            if trig {
                                m.f2_triggered = true;
                            }
                            m.traces[k] = None;
                            m.release_h(h, t);
                            let tl = traces.clone();
                            st.run(t, move |_| {
                                let x = tl.lock().unwrap()[k].take();
                                drop(x);
                            })
                        }
                    }
                }
            }
            Op::SwitchDefault { t, sel } => {
                let t = t as usize % NT;
                m.default[t] = sel;
                let d = reg_of(sel).map(|r| stacks[r].dispatch.clone());
                st.run(t, move |ts| {
                    ts.default.take();
                    if let Some(d) = d {
                        ts.default = Some(dispatch::set_default(&d));
                    }
                })
            }
        };
        if let Err(e) = r {
            fail!(format!("panic: {}", vp_engine::panic_signature(&e)), "{e}");
        }
        // fill in the id the registry chose and check uniqueness among live spans
        if let Some((s, idx)) = created {
            let id = slots.lock().unwrap()[s].as_ref().and_then(|sp| sp.id()).map(|i| i.into_u64());
            match id {
                None => fail!("span unexpectedly disabled", "registry-backed span has no id"),
                Some(id) => {
                    let r = m.spans[idx].reg;
                    if m.spans.iter().enumerate().any(|(j, x)| j != idx && !x.closed && x.reg == r && x.id == id) {
                        fail!("two live spans share an id", "new span got id {id} which a live span of the same registry already has");
                    }
                    m.spans[idx].id = id;
                }
            }
        }
        // ---- compare layer logs with the model
        for r in 0..2 {
            for layer in 0..2 {
                let got: Vec<LEntry> = std::mem::take(&mut *stacks[r].logs[layer].lock().unwrap());
                let want = &m.want[r];
                let gk: Vec<(LKind, u64)> = got.iter().map(|e| (e.kind.clone(), e.id)).collect();
                let wk: Vec<(LKind, u64)> = want.iter().map(|w| (w.kind.clone(), if w.kind == LKind::Event { 0 } else { m.spans[w.ms.unwrap()].id })).collect();
                if gk != wk {
                    let closes_g = got.iter().filter(|e| e.kind == LKind::Close).count();
                    let closes_w = want.iter().filter(|e| e.kind == LKind::Close).count();
                    let sig = if closes_g > closes_w {
                        "span closed too early or twice (extra on_close)"
                    } else if closes_g < closes_w {
                        "on_close missing when the last reference / last child went away"
                    } else if got.iter().filter(|e| e.kind == LKind::Close).map(|e| e.id).collect::<Vec<_>>() != want.iter().filter(|e| e.kind == LKind::Close).map(|w| m.spans[w.ms.unwrap()].id).collect::<Vec<_>>() {
                        "on_close for the wrong span or in the wrong order (children must close before parents)"
                    } else {
                        "layer saw different notifications"
                    };
                    let c05_relevant = closes_g != closes_w || sig.starts_with("on_close");
                    if mode == Mode::C05 && !c05_relevant && !m.f2_triggered {
                        continue;
                    }
                    fail!(sig, "registry {r} layer {layer}: got {:?}, expected {:?}", gk, wk);
                }
                for (e, w) in got.iter().zip(want.iter()) {
                    if e.thread != w.thread as u8 {
                        fail!("callback on the wrong thread", "registry {r} layer {layer}: {:?} on T{}, expected T{}", e.kind, e.thread, w.thread);
                    }
                    match w.kind {
                        LKind::Event => {
                            if mode == Mode::C06 && w.ms != Some(usize::MAX) {
                                let wp = w.parent.map(|p| m.spans[p].id);
                                if e.parent != wp {
                                    fail!("event has the wrong parent span", "registry {r} layer {layer}: event_span {:?}, expected {:?}", e.parent, wp);
                                }
                                let chain: Vec<u64> = w.parent.map(|p| m.chain(p).iter().map(|x| m.spans[*x].id).collect()).unwrap_or_default();
                                if e.scope != chain {
                                    fail!("event scope is not the ancestor chain leaf to root", "registry {r} layer {layer}: {:?}, expected {:?}", e.scope, chain);
                                }
                                let mut rev = chain.clone();
                                rev.reverse();
                                if e.from_root != rev {
                                    fail!("event scope from_root is not root to leaf", "registry {r} layer {layer}: {:?}, expected {:?}", e.from_root, rev);
                                }
                            }
                        }
                        _ => {
                            let x = w.ms.unwrap();
                            let ms = &m.spans[x];
                            if !e.readable {
                                if mode == Mode::C05 || w.kind != LKind::Close {
                                    fail!(format!("span data not readable inside {:?} callback", w.kind), "registry {r} layer {layer}: ctx.span({}) returned None", ms.id);
                                }
                                continue;
                            }
                            if e.name != ms.name || e.serial != Some(ms.serial) || e.stale {
                                let sig = if e.stale || (e.serial.is_some() && e.serial != Some(ms.serial)) {
                                    "stored data of an earlier span visible to a later one"
                                } else {
                                    "span data wrong inside callback"
                                };
                                if mode == Mode::C05 || w.kind != LKind::Close {
                                    fail!(sig, "registry {r} layer {layer} {:?}: name {:?} serial {:?} stale {}, expected {:?}/{}", w.kind, e.name, e.serial, e.stale, ms.name, ms.serial);
                                }
                            }
                            if mode == Mode::C06 {
                                let chain: Vec<u64> = m.chain(x).iter().map(|y| m.spans[*y].id).collect();
                                if w.kind == LKind::NewSpan && e.parent != w.parent.map(|p| m.spans[p].id) {
                                    fail!("new span has the wrong parent", "registry {r} layer {layer}: parent {:?}, expected {:?}", e.parent, w.parent.map(|p| m.spans[p].id));
                                }
                                if e.scope != chain {
                                    fail!("scope is not the ancestor chain leaf to root", "registry {r} layer {layer} {:?}: {:?}, expected {:?}", w.kind, e.scope, chain);
                                }
                                let mut rev = chain.clone();
                                rev.reverse();
                                if e.from_root != rev {
                                    fail!("scope from_root is not root to leaf", "registry {r} layer {layer} {:?}: {:?}, expected {:?}", w.kind, e.from_root, rev);
                                }
                            }
                        }
                    }
                    if mode == Mode::C06 {
                        if let Some(c) = w.current {
                            let wc = c.map(|x| m.spans[x].id);
                            if e.current != wc {
                                fail!("lookup_current is not the most recently entered, not yet exited span of the thread", "registry {r} layer {layer} inside {:?}: {:?}, expected {:?}", w.kind, e.current, wc);
                            }
                        }
                    }
                }
            }
        }
        // ---- outside view: Span::current per thread (C06), live spans readable, closed gone
        if mode == Mode::C06 {
            for t in 0..NT {
                if let (Some(r), true) = (reg_of(m.default[t]), st.started(t)) {
                    if let Some(wc) = m.cur_assert(r, t) {
                        let got = st.run(t, |_| Span::current().id().map(|i| i.into_u64()));
                        let wid = wc.map(|x| m.spans[x].id);
                        match got {
                            Ok(g) if g != wid => fail!("Span::current is not the most recently entered, not yet exited span of the thread", "thread T{t}: {:?}, expected {:?}", g, wid),
                            Ok(_) => {}
                            Err(e) => fail!("panic: Span::current", "{e}"),
                        }
                        // Span::current() cloned and dropped a handle on the own registry: no
                        // layer callback results from it
                    }
                }
            }
        }
        for r in 0..2 {
            let reg: &Registry = stacks[r].dispatch.downcast_ref::<Registry>().expect("registry");
            let live: HashMap<u64, usize> = m.spans.iter().enumerate().filter(|(_, x)| x.reg == r && !x.closed).map(|(j, x)| (x.id, j)).collect();
            for (id, j) in live.iter() {
                match reg.span(&span::Id::from_u64(*id)) {
                    None => fail!(if mode == Mode::C05 { "live span is gone (closed too early)" } else { "data of a live span or ancestor is not readable" }, "registry {r}: span {} ({}) has {} model references but lookup returned None", id, m.spans[*j].name, m.spans[*j].refs),
                    Some(sp) => {
                        let ser = sp.extensions().get::<Serials>().map(|x| x.0.clone()).unwrap_or_default();
                        let want_ser = vec![(0u8, m.spans[*j].serial), (1u8, m.spans[*j].serial)];
                        if sp.name() != m.spans[*j].name || ser != want_ser {
                            fail!("stored data of an earlier span visible to a later one", "registry {r} span {id}: name {:?} serials {:?}, expected {:?} {:?}", sp.name(), ser, m.spans[*j].name, want_ser);
                        }
                        if mode == Mode::C06 {
                            let chain: Vec<u64> = m.chain(*j).iter().map(|y| m.spans[*y].id).collect();
                            let got: Vec<u64> = sp.scope().map(|x| x.id().into_u64()).collect();
                            if got != chain {
                                fail!("scope is not the ancestor chain leaf to root", "registry {r} span {id}: {:?}, expected {:?}", got, chain);
                            }
                        }
                    }
                }
            }
            if mode == Mode::C05 {
                for x in m.spans.iter().filter(|x| x.reg == r && x.closed) {
                    if !live.contains_key(&x.id) && reg.span(&span::Id::from_u64(x.id)).is_some() {
                        fail!("closed span still present in the registry", "registry {r}: span {} ({}) was reported closed but lookup still finds it", x.id, x.name);
                    }
                }
            }
        }
        if skipped {
            classes.push("op_skipped_not_applicable".into());
        }
        i += 1;
    }
    // everything has been released: every span of the model must be closed
    if let Some(x) = m.spans.iter().find(|x| !x.closed) {
        let o = Outcome::fail(if m.f2_triggered { F2_SIG } else { "span never closed although every handle, guard and child is gone" }, format!("span {} ({}) still has {} references in the model", x.id, x.name, x.refs));
        std::mem::forget(st);
        return o;
    }
    for (b, n) in [
        (drop_while_entered, "handle_dropped_while_entered"),
        (parent_before_child, "parent_handle_dropped_before_child"),
        (ooo_exit, "out_of_order_exit"),
        (cross_thread_drop, "handle_dropped_on_other_thread"),
        (depth3, "depth_ge_3"),
        (two_thread_enter, "span_entered_on_two_threads"),
        (trace_outlives, "trace_outlives_handles"),
    ] {
        if b {
            classes.push(n.into());
        }
    }
    classes.sort();
    classes.dedup();
    let nontrivial = match mode {
        Mode::C05 => drop_while_entered || parent_before_child || ooo_exit || cross_thread_drop,
        Mode::C06 => depth3 && (ooo_exit || two_thread_enter || trace_outlives),
    };
    let r = std::panic::catch_unwind(std::panic::AssertUnwindSafe(move || {
        drop(st);
        drop(stacks);
    }));
    if r.is_err() {
        return Outcome::fail("panic: teardown", "dropping threads/collectors panicked");
    }
    let mut o = Outcome::pass(nontrivial, classes);
    o.excluded_known = excluded;
    o
}

impl Property for RegProp {
    type Case = Case;
    fn id(&self) -> &'static str {
        match self.mode {
            Mode::C05 => "C05",
            Mode::C06 => "C06",
        }
    }
    fn isolation(&self) -> Isolation {
        Isolation::Child
    }
    fn cases(&self, tier: Tier) -> u32 {
        tier.pick(30_000, 400_000)
    }
    fn strategy(&self, tier: Tier) -> BoxedStrategy<Case> {
        let t = || 0u8..NT as u8;
        let s = || 0u8..NSLOT as u8;
        let tr = || 0u8..NTRACE as u8;
        let parent = || prop_oneof![4 => Just(Parent::Contextual), 1 => Just(Parent::Root), 2 => s().prop_map(Parent::Explicit)];
        let sel = || prop_oneof![4 => Just(Sel::R0), 2 => Just(Sel::R1), 1 => Just(Sel::NoDefault)];
        let c06 = self.mode == Mode::C06;
        let op = prop_oneof![
            8 => (t(), s(), parent(), 0u8..3).prop_map(|(t, slot, parent, name)| Op::Create { t, slot, parent, name }),
            4 => (t(), s(), s()).prop_map(|(t, from, to)| Op::Clone { t, from, to }),
            5 => (t(), s()).prop_map(|(t, slot)| Op::Drop { t, slot }),
            6 => (t(), s()).prop_map(|(t, slot)| Op::Enter { t, slot }),
            2 => (t(), s()).prop_map(|(t, slot)| Op::Entered { t, slot }),
            1 => (t(), s(), any::<bool>()).prop_map(|(t, slot, event)| Op::PanicScope { t, slot, event }),
            6 => (t(), any::<u16>()).prop_map(|(t, g)| Op::DropGuard { t, g }),
            2 => (t(), s()).prop_map(|(t, to)| Op::Current { t, to }),
            if c06 { 4 } else { 1 } => (t(), parent()).prop_map(|(t, parent)| Op::Event { t, parent }),
            if c06 { 3 } else { 1 } => (t(), tr()).prop_map(|(t, tr)| Op::TraceCapture { t, tr }),
            if c06 { 3 } else { 1 } => (t(), tr()).prop_map(|(t, tr)| Op::TraceCheck { t, tr }),
            1 => (t(), tr()).prop_map(|(t, tr)| Op::DropTrace { t, tr }),
            2 => (t(), sel()).prop_map(|(t, sel)| Op::SwitchDefault { t, sel }),
        ];
        let max = tier.pick(45usize, 70usize);
        // optional prelude: a chain of nested, entered spans on one thread (depth 0..4), optionally
        // with a trace captured at the bottom, so that deep ancestor chains are common
        let prelude = (t(), 0usize..5, any::<bool>(), any::<bool>());
        let main_cases = (proptest::collection::vec(sel(), NT), prelude, proptest::collection::vec(op, 1..max))
            .prop_map(|(sels, (pt, depth, owned, trace), ops)| {
                let mut all: Vec<Op> = sels.into_iter().enumerate().map(|(t, sel)| Op::SwitchDefault { t: t as u8, sel }).collect();
                for d in 0..depth {
                    all.push(Op::Create { t: pt, slot: d as u8, parent: Parent::Contextual, name: d as u8 });
                    all.push(if owned && d % 2 == 1 { Op::Entered { t: pt, slot: d as u8 } } else { Op::Enter { t: pt, slot: d as u8 } });
                }
                if trace && depth > 0 {
                    all.push(Op::TraceCapture { t: pt, tr: 0 });
                }
                all.extend(ops);
                Case { ops: all, no_steer: false, deep: None }
            });
        if c06 {
            // a few long chains (beyond any inline buffer of the scope iterators)
            let deep = (1u8..48).prop_map(|n| Case { ops: vec![], no_steer: false, deep: Some(n) });
            prop_oneof![40 => main_cases.boxed(), 1 => deep.boxed()].boxed()
        } else {
            main_cases.boxed()
        }
    }
    fn enumerate(&self, _tier: Tier, shard: u32, _of: u32, rec: &mut vp_engine::runner::Rec<'_, Self>) {
        if self.mode == Mode::C06 && shard == 0 {
            for n in [1u8, 2, 3, 8, 15, 16, 17, 18, 31, 32, 33, 40, 47] {
                rec.eval(&Case { ops: vec![], no_steer: false, deep: Some(n) });
            }
        }
    }
    fn run(&self, case: &Case) -> Outcome {
        run_case(self.mode, case)
    }
    fn rule(&self) -> String {
        match self.mode {
            Mode::C05 => "programs of <=45 (thorough <=70) ops {Create(contextual|root|explicit parent),Clone,Drop,Enter,Entered,DropGuard(any order),Current,Event,TraceCapture/Check/Drop,SwitchDefault(own registry|other registry|none)} over 6 span slots and 3 stepped OS threads against two independent Registry+2 recording layers stacks, one fresh process per program, followed by a deterministic teardown through the same checked path. non-trivial: a handle dropped while the span is entered somewhere, or a parent's handle dropped while a child is open, or guards dropped out of order, or a handle dropped on a thread other than its creator; distinct by op list".into(),
            Mode::C06 => "same interpreter as C05 with more events and SpanTrace captures; non-trivial: ancestor depth >= 3 and (guards dropped out of order, or one span entered on two threads at once, or a SpanTrace checked after every handle of its chain was dropped); plus chains of 1-47 nested spans (explicit parents) with an event in the leaf whose scope, and every ancestor's scope, is read in both directions; distinct by op list".into(),
        }
    }
    fn assumptions(&self) -> Vec<String> {
        vec![
            "guards are API-faithful: a borrowed enter() guard keeps its handle alive, an entered() guard owns it".into(),
            "explicit parents are taken from the registry that creates the child (a foreign id is outside the API contract); such generated ops are skipped".into(),
            "open finding F2: operations that exit a span, or close a span that has a parent, while the thread's default is a different collector are not executed (counted in excluded_known); the committed reproducer still runs them".into(),
            "'current span' clauses are not asserted while a thread has re-entered a span it is already inside (excluded by the property)".into(),
        ]
    }
}
