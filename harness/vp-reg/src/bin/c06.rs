fn main() {
    vp_engine::main(vp_reg::RegProp { mode: vp_reg::Mode::C06 })
}
