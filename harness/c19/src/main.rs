//! C19 — levels and level filters form one consistent total order; text round-trips; the
//! published maximum level reads back as set.
//!
//! The finite part (all ordered pairs x all operators x all four type combinations, all
//! conversions, all letter-case spellings and digits, "enabled" == level <= filter) is
//! enumerated completely in both tiers. Generated part: noise strings that must be rejected
//! and histories of collectors with max-level hints whose published maximum is read back.

use proptest::prelude::*;
use serde::{Deserialize, Serialize};
use std::cmp::Ordering;
use tracing_core::{
    collect::{Collect, Interest},
    field::FieldSet,
    identify_callsite,
    metadata::Kind,
    span, Callsite, Dispatch, Event, Level, LevelFilter, Metadata,
};
use tracing_log::{AsLog, AsTrace};
use vp_engine::runner::Rec;
use vp_engine::{Isolation, Outcome, Property, Tier};

const LEVELS: [Level; 5] = [Level::ERROR, Level::WARN, Level::INFO, Level::DEBUG, Level::TRACE];
const FILTERS: [LevelFilter; 6] =
    [LevelFilter::OFF, LevelFilter::ERROR, LevelFilter::WARN, LevelFilter::INFO, LevelFilter::DEBUG, LevelFilter::TRACE];
const LNAMES: [&str; 5] = ["error", "warn", "info", "debug", "trace"];
const FNAMES: [&str; 6] = ["off", "error", "warn", "info", "debug", "trace"];

fn lrank(l: &Level) -> u8 {
    // rank from the public constants only (no reliance on the internal encoding)
    if *l == Level::ERROR {
        1
    } else if *l == Level::WARN {
        2
    } else if *l == Level::INFO {
        3
    } else if *l == Level::DEBUG {
        4
    } else {
        5
    }
}
fn frank(f: &LevelFilter) -> u8 {
    match f.into_level() {
        None => 0,
        Some(l) => lrank(&l),
    }
}

#[derive(Clone, Debug, Serialize, Deserialize)]
enum Case {
    /// a string that both parsers are asked about
    Text { s: String },
    /// collectors with these hints (None = no hint; 0..=5 = OFF..TRACE) are created one after
    /// another; `keep[i]` says whether collector i stays alive when i+1 is created
    Hints { hints: Vec<Option<u8>>, keep: Vec<bool> },
    /// collector B (hint `b_before`) is live; while another thread is inside `Dispatch::new(A)`
    /// (A's first max_level_hint call is held), B changes its hint to `b_after` and calls
    /// rebuild_interest_cache() as the documentation requires; afterwards the published maximum
    /// has to be max(b_after, a)
    HintRace { b_before: u8, b_after: u8, a: Option<u8> },
}

struct HintCollector(Option<LevelFilter>);
impl Collect for HintCollector {
    fn register_callsite(&self, _: &'static Metadata<'static>) -> Interest {
        Interest::sometimes()
    }
    fn enabled(&self, m: &Metadata<'_>) -> bool {
        match self.0 {
            Some(f) => *m.level() <= f,
            None => true,
        }
    }
    fn max_level_hint(&self) -> Option<LevelFilter> {
        self.0
    }
    fn new_span(&self, _: &span::Attributes<'_>) -> span::Id {
        span::Id::from_u64(1)
    }
    fn record(&self, _: &span::Id, _: &span::Record<'_>) {}
    fn record_follows_from(&self, _: &span::Id, _: &span::Id) {}
    fn event(&self, _: &Event<'_>) {}
    fn enter(&self, _: &span::Id) {}
    fn exit(&self, _: &span::Id) {}
    fn current_span(&self) -> tracing_core::span::Current {
        tracing_core::span::Current::unknown()
    }
}

struct Cs(u8);
static CS: [Cs; 5] = [Cs(1), Cs(2), Cs(3), Cs(4), Cs(5)];
macro_rules! meta {
    ($i:expr, $lvl:expr) => {
        Metadata::new("c19", "c19", $lvl, None, None, None, FieldSet::new(&[], identify_callsite!(&CS[$i])), Kind::EVENT)
    };
}
static METAS: [Metadata<'static>; 5] =
    [meta!(0, Level::ERROR), meta!(1, Level::WARN), meta!(2, Level::INFO), meta!(3, Level::DEBUG), meta!(4, Level::TRACE)];
impl Callsite for Cs {
    fn set_interest(&self, _: Interest) {}
    fn metadata(&self) -> &Metadata<'_> {
        &METAS[self.0 as usize - 1]
    }
}

type Fail = (String, String);

fn expect_text(s: &str) -> (Option<Option<u8>>, Option<Option<u8>>) {
    // returns (required Level result, required LevelFilter result); outer None = tolerated
    // (non-canonical numerals accepted by usize::from_str: optional '+', leading zeros)
    let lower = s.to_ascii_lowercase();
    let is_ascii_name = s.is_ascii();
    if is_ascii_name {
        if let Some(i) = LNAMES.iter().position(|n| *n == lower) {
            return (Some(Some(i as u8 + 1)), Some(Some(i as u8 + 1)));
        }
        if lower == "off" {
            return (Some(None), Some(Some(0)));
        }
    }
    if s.len() == 1 && s.as_bytes()[0].is_ascii_digit() {
        let d = s.as_bytes()[0] - b'0';
        let lv = if (1..=5).contains(&d) { Some(d) } else { None };
        let fv = if d <= 5 { Some(d) } else { None };
        return (Some(lv), Some(fv));
    }
    let t = s.strip_prefix('+').unwrap_or(s);
    if !t.is_empty() && t.bytes().all(|b| b.is_ascii_digit()) {
        let stripped = t.trim_start_matches('0');
        if stripped.len() <= 1 {
            // "+3", "03", "000": tolerated either way
            return (None, None);
        }
    }
    (Some(None), Some(None))
}

fn check_text(s: &str) -> Result<(), Fail> {
    let (el, ef) = expect_text(s);
    let gl = s.parse::<Level>().ok().map(|l| lrank(&l));
    let gf = s.parse::<LevelFilter>().ok().map(|f| frank(&f));
    if let Some(el) = el {
        if gl != el {
            return Err(("level-parse".into(), format!("{s:?}.parse::<Level>() gave rank {gl:?}, expected {el:?}")));
        }
    }
    if let Some(ef) = ef {
        if gf != ef {
            if s.is_empty() {
                return Err(("levelfilter-empty-string-parses".into(), format!("\"\".parse::<LevelFilter>() gave rank {gf:?}, expected rejection")));
            }
            return Err(("levelfilter-parse".into(), format!("{s:?}.parse::<LevelFilter>() gave rank {gf:?}, expected {ef:?}")));
        }
    }
    Ok(())
}

/// (ASCII upper-case text, non-ASCII character that upper- or lower-cases to it, ignoring case)
fn fold_alikes() -> &'static Vec<(String, char)> {
    static T: std::sync::OnceLock<Vec<(String, char)>> = std::sync::OnceLock::new();
    T.get_or_init(|| {
        let mut v = vec![];
        for c in (0x80u32..0x30000).filter_map(char::from_u32) {
            for t in [c.to_uppercase().collect::<String>(), c.to_lowercase().collect::<String>()] {
                if !t.is_empty() && t.len() <= 3 && t.bytes().all(|b| b.is_ascii_alphabetic()) {
                    let t = t.to_ascii_uppercase();
                    if !v.contains(&(t.clone(), c)) {
                        v.push((t, c));
                    }
                }
            }
        }
        v
    })
}

fn near_miss(s: &str) -> bool {
    let t = s.trim().to_lowercase();
    let names = ["off", "error", "warn", "info", "debug", "trace", "0", "1", "2", "3", "4", "5"];
    if names.contains(&t.as_str()) {
        return true;
    }
    let tc: Vec<char> = t.chars().collect();
    names.iter().any(|n| {
        let nc: Vec<char> = n.chars().collect();
        edit_le1(&tc, &nc)
    })
}
fn edit_le1(a: &[char], b: &[char]) -> bool {
    let (a, b) = if a.len() <= b.len() { (a, b) } else { (b, a) };
    if b.len() - a.len() > 1 {
        return false;
    }
    let mut i = 0;
    while i < a.len() && a[i] == b[i] {
        i += 1;
    }
    if a.len() == b.len() {
        a[i.min(a.len())..].iter().skip(1).eq(b[i.min(b.len())..].iter().skip(1))
    } else {
        a[i..] == b[i + 1..]
    }
}

macro_rules! ops {
    ($a:expr, $b:expr, $ra:expr, $rb:expr, $what:expr) => {{
        let (a, b, ra, rb) = ($a, $b, $ra, $rb);
        let mut bad: Vec<String> = vec![];
        if (a == b) != (ra == rb) { bad.push("==".into()); }
        if (a != b) != (ra != rb) { bad.push("!=".into()); }
        if (a < b) != (ra < rb) { bad.push("<".into()); }
        if (a <= b) != (ra <= rb) { bad.push("<=".into()); }
        if (a > b) != (ra > rb) { bad.push(">".into()); }
        if (a >= b) != (ra >= rb) { bad.push(">=".into()); }
        if a.partial_cmp(&b) != Some(ra.cmp(&rb)) { bad.push("partial_cmp".into()); }
        if a.lt(&b) != (ra < rb) || a.le(&b) != (ra <= rb) || a.gt(&b) != (ra > rb) || a.ge(&b) != (ra >= rb) {
            bad.push("lt/le/gt/ge methods".into());
        }
        if bad.is_empty() { Ok(()) } else {
            Err((format!("operator {} {}", $what, bad[0]), format!("{} ranks ({ra},{rb}): operators {:?} disagree with the total order", $what, bad)))
        }
    }};
}

fn enumerate_order() -> Result<(u64, u64), Fail> {
    let mut n = 0u64;
    let mut nt = 0u64;
    for a in LEVELS.iter() {
        for b in LEVELS.iter() {
            let (ra, rb) = (lrank(a), lrank(b));
            ops!(*a, *b, ra, rb, "Level/Level")?;
            if a.cmp(b) != ra.cmp(&rb) {
                return Err(("operator Level/Level cmp".into(), format!("cmp ranks ({ra},{rb})")));
            }
            if lrank(&(*a).min(*b)) != ra.min(rb) || lrank(&(*a).max(*b)) != ra.max(rb) {
                return Err(("operator Level/Level min-max".into(), format!("min/max ranks ({ra},{rb})")));
            }
            let lo = if ra <= rb { (*a, *b) } else { (*b, *a) };
            for c in LEVELS.iter() {
                if lrank(&(*c).clamp(lo.0, lo.1)) != lrank(c).clamp(ra.min(rb), ra.max(rb)) {
                    return Err(("operator Level/Level clamp".into(), format!("clamp ranks ({ra},{rb})")));
                }
            }
            n += 11;
            nt += (ra != rb) as u64;
        }
        for f in FILTERS.iter() {
            let (ra, rf) = (lrank(a), frank(f));
            ops!(*a, *f, ra, rf, "Level/LevelFilter")?;
            ops!(*f, *a, rf, ra, "LevelFilter/Level")?;
            n += 16;
            nt += 2 * (ra != rf) as u64;
        }
    }
    for a in FILTERS.iter() {
        for b in FILTERS.iter() {
            let (ra, rb) = (frank(a), frank(b));
            ops!(*a, *b, ra, rb, "LevelFilter/LevelFilter")?;
            if a.cmp(b) != ra.cmp(&rb) {
                return Err(("operator LevelFilter/LevelFilter cmp".into(), format!("cmp ranks ({ra},{rb})")));
            }
            if frank(&(*a).min(*b)) != ra.min(rb) || frank(&(*a).max(*b)) != ra.max(rb) {
                return Err(("operator LevelFilter/LevelFilter min-max".into(), format!("min/max ranks ({ra},{rb})")));
            }
            n += 10;
            nt += (ra != rb) as u64;
        }
    }
    // sorting uses Ord: a shuffled list sorts into rank order
    let mut v: Vec<LevelFilter> = vec![FILTERS[3], FILTERS[5], FILTERS[0], FILTERS[2], FILTERS[4], FILTERS[1]];
    v.sort();
    if v.iter().map(frank).collect::<Vec<_>>() != vec![0, 1, 2, 3, 4, 5] {
        return Err(("operator sort".into(), format!("sorted filters: {v:?}")));
    }
    let mut v: Vec<Level> = vec![LEVELS[3], LEVELS[0], LEVELS[2], LEVELS[4], LEVELS[1]];
    v.sort();
    if v.iter().map(lrank).collect::<Vec<_>>() != vec![1, 2, 3, 4, 5] {
        return Err(("operator sort".into(), format!("sorted levels: {v:?}")));
    }
    n += 2;
    Ok((n, nt))
}

fn enumerate_conversions() -> Result<(u64, u64), Fail> {
    let mut n = 0;
    let bad = |w: &str, d: String| Err((format!("conversion {w}"), d));
    for (i, l) in LEVELS.iter().enumerate() {
        let r = i as u8 + 1;
        if frank(&LevelFilter::from(*l)) != r || frank(&LevelFilter::from_level(*l)) != r || frank(&LevelFilter::from(Some(*l))) != r {
            return bad("Level->LevelFilter", format!("{l:?}"));
        }
        if Option::<Level>::from(LevelFilter::from(*l)).map(|x| lrank(&x)) != Some(r) || FILTERS[i + 1].into_level().map(|x| lrank(&x)) != Some(r) {
            return bad("LevelFilter->Option<Level>", format!("{l:?}"));
        }
        // log bridge
        let lg = l.as_log();
        let expect_log = [log::Level::Error, log::Level::Warn, log::Level::Info, log::Level::Debug, log::Level::Trace][i];
        if lg != expect_log || lrank(&lg.as_trace()) != r {
            return bad("Level<->log::Level", format!("{l:?} -> {lg:?} -> {:?}", lg.as_trace()));
        }
        // Display / as_str / FromStr
        let shown = l.to_string();
        if shown.to_ascii_lowercase() != LNAMES[i] || l.as_str().to_ascii_lowercase() != LNAMES[i] {
            return bad("Level Display", format!("{l:?} displays as {shown:?} / {:?}", l.as_str()));
        }
        if shown.parse::<Level>().ok().map(|x| lrank(&x)) != Some(r) || l.as_str().parse::<Level>().ok().map(|x| lrank(&x)) != Some(r) {
            return bad("Level Display->FromStr", format!("{shown:?}"));
        }
        // padding is honoured without changing the name
        if format!("{:>7}", l).trim() != shown || format!("{:<7}", l).len() != 7 {
            return bad("Level Display padding", format!("{:?}", format!("{:>7}", l)));
        }
        n += 10;
    }
    if frank(&LevelFilter::from(None::<Level>)) != 0 || Option::<Level>::from(LevelFilter::OFF).is_some() || LevelFilter::OFF.into_level().is_some() {
        return bad("OFF<->None", "OFF".into());
    }
    let logf = [log::LevelFilter::Off, log::LevelFilter::Error, log::LevelFilter::Warn, log::LevelFilter::Info, log::LevelFilter::Debug, log::LevelFilter::Trace];
    for (i, f) in FILTERS.iter().enumerate() {
        if f.as_log() != logf[i] || frank(&logf[i].as_trace()) != i as u8 {
            return bad("LevelFilter<->log::LevelFilter", format!("{f:?} -> {:?}", f.as_log()));
        }
        let shown = f.to_string();
        if shown != FNAMES[i] {
            return bad("LevelFilter Display", format!("{f:?} displays as {shown:?}"));
        }
        if shown.parse::<LevelFilter>().ok().map(|x| frank(&x)) != Some(i as u8) {
            return bad("LevelFilter Display->FromStr", format!("{shown:?}"));
        }
        let dbg = format!("{f:?}");
        if !dbg.to_ascii_lowercase().contains(FNAMES[i]) {
            return bad("LevelFilter Debug", format!("{dbg:?}"));
        }
        n += 5;
    }
    // monotone: conversions preserve order (log's own order: Off < Error < ... < Trace)
    for a in 0..6 {
        for b in 0..6 {
            if FILTERS[a].as_log().cmp(&FILTERS[b].as_log()) != a.cmp(&b) {
                return bad("as_log monotone", format!("{a} {b}"));
            }
            if logf[a].as_trace().cmp(&logf[b].as_trace()) != a.cmp(&b) {
                return bad("as_trace monotone", format!("{a} {b}"));
            }
            n += 2;
        }
    }
    for a in 0..5 {
        for b in 0..5 {
            if LEVELS[a].as_log().cmp(&LEVELS[b].as_log()) != a.cmp(&b) {
                return bad("Level as_log monotone", format!("{a} {b}"));
            }
            n += 1;
        }
    }
    Ok((n, n / 2))
}

/// "level enabled by filter" == level <= filter, through the LevelFilter layer and through
/// the comparison users write.
fn enumerate_enabled() -> Result<(u64, u64), Fail> {
    use tracing_subscriber::subscribe::CollectExt;
    let mut n = 0;
    let mut nt = 0;
    for (fi, f) in FILTERS.iter().enumerate() {
        let d = Dispatch::new(tracing_subscriber::registry().with(*f));
        for (li, l) in LEVELS.iter().enumerate() {
            let want = (li + 1) <= fi;
            let got_layer = d.enabled(&METAS[li]);
            let got_cmp = *l <= *f && *f >= *l;
            if got_layer != want {
                return Err(("enabled layer".into(), format!("LevelFilter layer {f} enabled({l}) = {got_layer}, expected {want}")));
            }
            if got_cmp != want {
                return Err(("enabled comparison".into(), format!("{l} <= {f} = {got_cmp}, expected {want}")));
            }
            n += 2;
            nt += ((li + 1) != fi) as u64;
        }
        let hint = tracing_core::Collect::max_level_hint(&tracing_subscriber::registry().with(*f));
        if hint.map(|h| frank(&h)) != Some(fi as u8) {
            return Err(("enabled hint".into(), format!("LevelFilter layer {f} max_level_hint = {hint:?}")));
        }
        n += 1;
    }
    Ok((n, nt))
}

fn spellings() -> Vec<String> {
    let mut out = vec![];
    for name in FNAMES {
        let k = name.len();
        for mask in 0..(1u32 << k) {
            let s: String = name.chars().enumerate().map(|(i, c)| if mask >> i & 1 == 1 { c.to_ascii_uppercase() } else { c }).collect();
            out.push(s);
        }
    }
    for d in 0..=9 {
        out.push(d.to_string());
    }
    out
}

fn run_hints(hints: &[Option<u8>], keep: &[bool]) -> Result<bool, Fail> {
    let mut live: Vec<(Option<u8>, Dispatch)> = vec![];
    let mut varied = false;
    let mut last: Option<u8> = None;
    for (i, h) in hints.iter().enumerate() {
        let keep_prev = i > 0 && keep.get(i - 1).copied().unwrap_or(false);
        if !keep_prev {
            live.clear();
        }
        let d = Dispatch::new(HintCollector(h.map(|r| FILTERS[r as usize % 6])));
        live.push((h.map(|r| r % 6), d));
        let want = live.iter().map(|(h, _)| h.unwrap_or(5)).max().unwrap();
        let got = frank(&LevelFilter::current());
        if got != want {
            let lone = live.len() == 1;
            return Err((
                if lone { "max-level read-back (lone collector)".into() } else { "max-level read-back (several collectors)".to_string() },
                format!("live hints {:?}: LevelFilter::current() rank {got}, expected {want}", live.iter().map(|l| l.0).collect::<Vec<_>>()),
            ));
        }
        for (li, l) in LEVELS.iter().enumerate() {
            let en = tracing::level_enabled!(*l);
            if en != ((li as u8 + 1) <= want) {
                return Err(("level_enabled vs published maximum".into(), format!("level_enabled!({l}) = {en} with published maximum rank {want}")));
            }
        }
        if let Some(p) = last {
            varied |= p != want;
        }
        last = Some(want);
    }
    drop(live);
    Ok(varied)
}

struct VarHint(std::sync::Arc<std::sync::atomic::AtomicU8>);
struct GateHint {
    hint: Option<LevelFilter>,
    entered: std::sync::Arc<std::sync::atomic::AtomicBool>,
    gate: std::sync::Arc<(std::sync::Mutex<bool>, std::sync::Condvar)>,
    first: std::sync::atomic::AtomicBool,
}
macro_rules! plain_collect {
    ($t:ty, $hint:expr) => {
        impl Collect for $t {
            fn register_callsite(&self, _: &'static Metadata<'static>) -> Interest {
                Interest::sometimes()
            }
            fn enabled(&self, _: &Metadata<'_>) -> bool {
                true
            }
            fn max_level_hint(&self) -> Option<LevelFilter> {
                #[allow(clippy::redundant_closure_call)]
                ($hint)(self)
            }
            fn new_span(&self, _: &span::Attributes<'_>) -> span::Id {
                span::Id::from_u64(1)
            }
            fn record(&self, _: &span::Id, _: &span::Record<'_>) {}
            fn record_follows_from(&self, _: &span::Id, _: &span::Id) {}
            fn event(&self, _: &Event<'_>) {}
            fn enter(&self, _: &span::Id) {}
            fn exit(&self, _: &span::Id) {}
            fn current_span(&self) -> span::Current {
                span::Current::unknown()
            }
        }
    };
}
plain_collect!(VarHint, |s: &VarHint| Some(FILTERS[s.0.load(std::sync::atomic::Ordering::SeqCst) as usize % 6]));
plain_collect!(GateHint, |s: &GateHint| {
    if !s.first.swap(true, std::sync::atomic::Ordering::SeqCst) {
        s.entered.store(true, std::sync::atomic::Ordering::SeqCst);
        let (m, cv) = &*s.gate;
        let mut open = m.lock().unwrap();
        let t0 = std::time::Instant::now();
        while !*open && t0.elapsed() < std::time::Duration::from_secs(3) {
            open = cv.wait_timeout(open, std::time::Duration::from_millis(50)).unwrap().0;
        }
    }
    s.hint
});

fn run_hint_race(b_before: u8, b_after: u8, a: Option<u8>) -> Result<bool, Fail> {
    use std::sync::atomic::{AtomicBool, AtomicU8, Ordering};
    use std::sync::{Arc, Condvar, Mutex};
    let bh = Arc::new(AtomicU8::new(b_before % 6));
    let _db = Dispatch::new(VarHint(bh.clone()));
    let entered = Arc::new(AtomicBool::new(false));
    let gate = Arc::new((Mutex::new(false), Condvar::new()));
    let (e2, g2) = (entered.clone(), gate.clone());
    let x = std::thread::spawn(move || Dispatch::new(GateHint { hint: a.map(|r| FILTERS[r as usize % 6]), entered: e2, gate: g2, first: AtomicBool::new(false) }));
    let t0 = std::time::Instant::now();
    while !entered.load(Ordering::SeqCst) && t0.elapsed() < std::time::Duration::from_secs(3) {
        std::thread::sleep(std::time::Duration::from_micros(200));
    }
    bh.store(b_after % 6, Ordering::SeqCst);
    let y = std::thread::spawn(tracing_core::callsite::rebuild_interest_cache);
    std::thread::sleep(std::time::Duration::from_millis(10));
    {
        let (m, cv) = &*gate;
        *m.lock().unwrap() = true;
        cv.notify_all();
    }
    let da = x.join().map_err(|_| ("panic while creating a Dispatch".to_string(), String::new()))?;
    y.join().map_err(|_| ("panic in rebuild_interest_cache".to_string(), String::new()))?;
    let want = (b_after % 6).max(a.map(|r| r % 6).unwrap_or(5));
    let got = frank(&LevelFilter::current());
    drop(da);
    if got != want {
        return Err(("max-level read-back after a hint change whose rebuild overlapped a Dispatch creation".into(), format!("collector B changed its hint from rank {} to {} and rebuilt while Dispatch::new(A, hint {:?}) was under way: LevelFilter::current() rank {got}, expected {want}", b_before % 6, b_after % 6, a.map(|r| r % 6))));
    }
    Ok(b_before % 6 != b_after % 6)
}

struct C19;

impl Property for C19 {
    type Case = Case;
    fn id(&self) -> &'static str {
        "C19"
    }
    fn isolation(&self) -> Isolation {
        Isolation::Pure
    }
    fn cases(&self, tier: Tier) -> u32 {
        tier.pick(60_000, 1_200_000)
    }
    fn strategy(&self, _tier: Tier) -> BoxedStrategy<Case> {
        // (the empty string is reachable only by deleting the single character of a digit:
        // it is the trigger of open finding F12, so it is not generated on purpose)
        let base = proptest::sample::select(spellings());
        let ws = proptest::sample::select(vec![" ", "\t", "\n", "\u{a0}", "\u{2003}", "\u{feff}", "\0"]);
        let junk = proptest::sample::select(vec![
            "x", "s", "ing", "=", ",", ":", "-", "+", ".", "0", "1", "e", "\u{130}", "\u{131}", "\u{17f}", "\u{212a}", "\u{ff29}", "\u{301}", "١", "５",
        ]);
        let lookalike = proptest::sample::select(vec![
            "warning", "err", "inf", "information", "dbg", "verbose", "fatal", "critical", "none", "all", "on", "true", "false", "of", "offf", "trac", "tracee",
            "inf0", "1nfo", "ınfo", "İNFO", "ſ", "INFO\u{0}", "wa rn", "de-bug", "6", "7", "10", "-1", "-0", "3.0", "1e0", "0x3", "３", "٣", "1_", "18446744073709551616",
            "18446744073709551619", "00000000000000000000003", "+3", "03", "+0", "+5", "+6", "++3", "+", "-", " 3", "3 ", "o\u{66}f", "OFF ", "Off\n",
        ]);
        let text = prop_oneof![
            3 => base.clone(),
            3 => (base.clone(), ws.clone(), any::<bool>()).prop_map(|(b, w, pre)| if pre { format!("{w}{b}") } else { format!("{b}{w}") }),
            3 => (base.clone(), junk, any::<bool>()).prop_map(|(b, j, pre)| if pre { format!("{j}{b}") } else { format!("{b}{j}") }),
            // delete / replace / duplicate one character
            3 => (base.clone(), any::<u16>(), 0u8..3, proptest::char::any()).prop_map(|(b, i, op, c)| {
                let mut cs: Vec<char> = b.chars().collect();
                if cs.is_empty() { return c.to_string(); }
                let k = vp_engine::pick(i, cs.len());
                match op { 0 => { cs.remove(k); } 1 => { cs[k] = c; } _ => { let d = cs[k]; cs.insert(k, d); } }
                cs.into_iter().collect()
            }),
            2 => lookalike.prop_map(|s| s.to_string()),
            // one letter (or letter pair) replaced by a non-ASCII character whose Unicode upper- or
            // lower-casing is that ASCII text (dotless i, long s, Kelvin sign, ligatures ..)
            5 => (base.clone(), any::<u16>()).prop_map(|(b, i)| {
                let up = b.to_ascii_uppercase();
                let cands: Vec<(usize, usize, char)> = fold_alikes().iter().flat_map(|(a, c)| up.match_indices(a.as_str()).map(|(k, _)| (k, a.len(), *c)).collect::<Vec<_>>()).collect();
                if cands.is_empty() { return format!("{b}\u{131}"); }
                let (k, n, c) = cands[vp_engine::pick(i, cands.len())];
                format!("{}{}{}", &b[..k], c, &b[k + n..])
            }),
            2 => (base.clone(), base).prop_map(|(a, b)| format!("{a}{b}")),
            1 => "[0-9+]{1,4}",
            2 => "\\PC{0,6}",
            1 => "[a-zA-Z]{1,6}",
        ]
        .prop_map(|s| Case::Text { s });
        let hints = (proptest::collection::vec(proptest::option::weighted(0.8, 0u8..6), 1..7), proptest::collection::vec(any::<bool>(), 6))
            .prop_map(|(hints, keep)| Case::Hints { hints, keep });
        prop_oneof![9 => text, 1 => hints].boxed()
    }
    fn run(&self, case: &Case) -> Outcome {
        match case {
            Case::Text { s } => match check_text(s) {
                Ok(()) => {
                    let acc = s.parse::<LevelFilter>().is_ok();
                    let mut classes = vec![if acc { "text_accepted".to_string() } else { "text_rejected".to_string() }];
                    if expect_text(s).0.is_none() {
                        classes.push("text_tolerated_numeral".into());
                    }
                    Outcome::pass(near_miss(s) && !FNAMES.contains(&s.as_str()), classes)
                }
                Err((sig, d)) => Outcome::fail(sig, d),
            },
            Case::HintRace { b_before, b_after, a } => match run_hint_race(*b_before, *b_after, *a) {
                Ok(nt) => Outcome::pass(nt, vec!["hint_change_overlapping_dispatch_creation".into()]),
                Err((sig, detail)) => Outcome::fail(sig, detail),
            },
            Case::Hints { hints, keep } => match run_hints(hints, keep) {
                Ok(varied) => Outcome::pass(varied, vec![if keep.iter().take(hints.len().saturating_sub(1)).any(|k| *k) { "hints_several_live".to_string() } else { "hints_lone".to_string() }]),
                Err((sig, d)) => Outcome::fail(sig, d),
            },
        }
    }
    fn rule(&self) -> String {
        "enumeration (complete): all ordered pairs of the 5 levels and 6 filters in all four type combinations x {==,!=,<,<=,>,>=,partial_cmp,cmp,min,max,clamp,sort}; all conversions (From/into_level/from_level/AsLog/AsTrace, Display->FromStr); level<=filter vs the LevelFilter layer; all 136 letter-case spellings and digits 0-9; read-back of every hint (None,OFF..TRACE) by a lone collector; all 252 (hint before, hint after, other collector's hint) triples of a hint change + rebuild_interest_cache() that overlaps another thread's Dispatch::new (real threads, the other collector's first max_level_hint call is held). generated: strings derived from accepted spellings by whitespace/affix/edit/look-alike mutations and by substituting characters that case-fold to ASCII letters plus random strings (must be rejected; '+3'/'03'-style numerals tolerated), and histories of 1-6 collectors with hints (lone or overlapping). non-trivial: ordered pairs of different rank; mixed-case spellings; generated strings within edit distance 1 (after trim/lowercase) of an accepted spelling but not canonical; hint histories in which the published maximum changes; distinct by canonical case encoding".into()
    }
    fn assumptions(&self) -> Vec<String> {
        vec![
            "ranks are derived from the public constants (==) only; the oracle is the integer order OFF=0<ERROR=1<...<TRACE=5".into(),
            "numerals that usize::from_str accepts but the docs do not list ('+3', '03') are tolerated, neither required nor forbidden".into(),
            "several live collectors: the published maximum is the most verbose hint (no hint = TRACE), as LevelFilter::current documents".into(),
        ]
    }
    fn exhaustive(&self, _tier: Tier) -> bool {
        true
    }
    fn enumerate(&self, _tier: Tier, shard: u32, of: u32, rec: &mut Rec<'_, Self>) {
        // hint changes whose rebuild overlaps a Dispatch creation: all (before, after, other)
        // triples, spread over the shards (each takes a few milliseconds of real time)
        let mut k = 0u32;
        for b_before in 0u8..6 {
            for b_after in 0u8..6 {
                for a in [None, Some(0u8), Some(1), Some(2), Some(3), Some(4), Some(5)] {
                    if k % of == shard {
                        rec.eval(&Case::HintRace { b_before, b_after, a });
                    }
                    k += 1;
                }
            }
        }
        if shard != 0 {
            return;
        }
        let dummy = Case::Text { s: "<enumeration>".into() };
        for (name, r) in [("order", enumerate_order()), ("conversions", enumerate_conversions()), ("enabled", enumerate_enabled())] {
            match r {
                Ok((n, nt)) => rec.bulk(n, nt, &format!("enum_{name}")),
                Err((sig, d)) => rec.violation(&dummy, &sig, &d),
            }
        }
        rec.sample(serde_json::json!({"enumerated": "Level::WARN < LevelFilter::INFO, LevelFilter::OFF.cmp(&LevelFilter::ERROR), ... (all pairs x operators)"}));
        for s in spellings() {
            rec.eval(&Case::Text { s });
        }
        rec.eval(&Case::Text { s: String::new() });
        for h in [None, Some(0u8), Some(1), Some(2), Some(3), Some(4), Some(5)] {
            for g in [None, Some(0u8), Some(3), Some(5)] {
                rec.eval(&Case::Hints { hints: vec![g, h], keep: vec![false, false] });
            }
        }
    }
}

fn main() {
    // cmp::Ordering sanity for the helper
    assert_eq!(1u8.cmp(&2), Ordering::Less);
    vp_engine::main(C19)
}
