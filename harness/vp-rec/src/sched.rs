//! A deterministic scheduler over real OS threads, driven by `tracing_core::verif` yield points.
//!
//! Only one managed thread runs at a time; it hands control back at every yield point (the
//! process-wide hook parks it). The next thread is chosen from a byte string: byte < `stick`
//! keeps the running thread (if it can run), otherwise `byte % runnable`. Sites whose name ends in
//! "::blocked" are lock probes: a thread parked there is only chosen when nothing else can run,
//! and if every unfinished thread keeps failing its probe the run is a proven deadlock.
//! When the bytes are used up the current thread runs to completion, then the lowest id.

use std::cell::Cell;
use std::panic::{catch_unwind, AssertUnwindSafe};
use std::sync::{Arc, Condvar, Mutex};
use std::time::Duration;

#[derive(Clone, Debug, PartialEq)]
enum TState {
    NotStarted,
    Running,
    Parked(&'static str),
    Done,
}
struct SState {
    threads: Vec<TState>,
    turn: Option<usize>,
    steps: u64,
    trace: Vec<(usize, &'static str)>,
}
pub struct Sched {
    m: Mutex<SState>,
    cv: Condvar,
}
thread_local! {
    static TID: Cell<Option<usize>> = const { Cell::new(None) };
}
impl Sched {
    fn park(&self, tid: usize, site: &'static str) {
        let mut s = self.m.lock().unwrap();
        s.threads[tid] = TState::Parked(site);
        if s.trace.len() < 6000 {
            s.trace.push((tid, site));
        }
        s.turn = None;
        self.cv.notify_all();
        while s.turn != Some(tid) {
            s = self.cv.wait(s).unwrap();
        }
        s.threads[tid] = TState::Running;
    }
    fn done(&self, tid: usize) {
        let mut s = self.m.lock().unwrap();
        s.threads[tid] = TState::Done;
        s.turn = None;
        self.cv.notify_all();
    }
    /// logical time: number of scheduling decisions so far
    pub fn now(&self) -> u64 {
        self.m.lock().unwrap().steps
    }
}

pub struct Outcome<T> {
    /// per thread: its result, or the panic message
    pub results: Vec<Result<T, String>>,
    pub trace: Vec<(usize, &'static str)>,
    pub switches: u32,
    /// sites at which a running thread was pre-empted (another thread chosen)
    pub preempted_at: Vec<&'static str>,
    pub deadlock: Option<String>,
    /// a thread did not reach a yield point in time (inconclusive)
    pub stuck: Option<String>,
}

/// Runs the bodies as managed threads under the schedule. Each body gets the scheduler (for
/// `now()`); yield points are the library's own plus explicit `tracing_core::verif::yield_point`.
pub fn run<T: Send + 'static>(bodies: Vec<Box<dyn FnOnce(Arc<Sched>, usize) -> T + Send>>, schedule: &[u8], stick: u8) -> Outcome<T> {
    let nt = bodies.len();
    let sched = Arc::new(Sched { m: Mutex::new(SState { threads: vec![TState::NotStarted; nt], turn: None, steps: 0, trace: Vec::new() }), cv: Condvar::new() });
    {
        let sched = sched.clone();
        tracing_core::verif::set_hook(Arc::new(move |site| {
            if let Some(tid) = TID.with(|t| t.get()) {
                sched.park(tid, site);
            }
        }));
    }
    let mut handles = Vec::new();
    for (tid, body) in bodies.into_iter().enumerate() {
        let sched = sched.clone();
        handles.push(std::thread::spawn(move || {
            TID.with(|t| t.set(Some(tid)));
            sched.park(tid, "thread::start");
            let s2 = sched.clone();
            let r = catch_unwind(AssertUnwindSafe(move || body(s2, tid)));
            TID.with(|t| t.set(None));
            sched.done(tid);
            r.map_err(|p| p.downcast_ref::<String>().cloned().or_else(|| p.downcast_ref::<&str>().map(|s| s.to_string())).unwrap_or_else(|| "<panic>".into()))
        }));
    }
    let (mut si, mut prev, mut switches, mut blocked_rounds) = (0usize, None::<usize>, 0u32, 0u32);
    let mut preempted_at = Vec::new();
    let mut deadlock = None;
    let mut stuck = None;
    'outer: loop {
        let mut s = sched.m.lock().unwrap();
        let mut waited = 0;
        while s.turn.is_some() || s.threads.iter().any(|t| matches!(t, TState::NotStarted | TState::Running)) {
            let (g, to) = sched.cv.wait_timeout(s, Duration::from_millis(500)).unwrap();
            s = g;
            if to.timed_out() {
                waited += 1;
                if waited >= 16 {
                    stuck = Some(format!("a managed thread did not reach a yield point within 8 s: {:?}", s.threads));
                    break 'outer;
                }
            }
        }
        let parked: Vec<usize> = (0..nt).filter(|t| matches!(s.threads[*t], TState::Parked(_))).collect();
        if parked.is_empty() {
            break;
        }
        let blocked = |t: usize| matches!(s.threads[t], TState::Parked(site) if site.ends_with("::blocked"));
        let runnable: Vec<usize> = parked.iter().copied().filter(|t| !blocked(*t)).collect();
        let cands = if runnable.is_empty() {
            blocked_rounds += 1;
            if blocked_rounds as usize > 3 * nt + 3 {
                deadlock = Some(format!("threads {:?}; last yield points {:?}", s.threads, s.trace.iter().rev().take(12).collect::<Vec<_>>()));
                break;
            }
            parked.clone()
        } else {
            blocked_rounds = 0;
            runnable
        };
        let b = schedule.get(si).copied();
        si += 1;
        let next = match (b, prev) {
            (Some(b), Some(p)) if b < stick && cands.contains(&p) => p,
            (Some(b), _) => cands[b as usize % cands.len()],
            (None, Some(p)) if cands.contains(&p) => p,
            (None, _) => cands[0],
        };
        if let Some(p) = prev {
            if p != next {
                switches += 1;
                if let TState::Parked(site) = s.threads[p] {
                    preempted_at.push(site);
                }
            }
        }
        prev = Some(next);
        s.steps += 1;
        s.turn = Some(next);
        sched.cv.notify_all();
    }
    let trace = sched.m.lock().unwrap().trace.clone();
    if deadlock.is_some() || stuck.is_some() {
        // the threads cannot be joined; they are left behind (the caller's process ends)
        tracing_core::verif::clear_hook();
        return Outcome { results: Vec::new(), trace, switches, preempted_at, deadlock, stuck };
    }
    let results = handles.into_iter().map(|h| h.join().unwrap_or_else(|_| Err("managed thread could not be joined".into()))).collect();
    tracing_core::verif::clear_hook();
    Outcome { results, trace, switches, preempted_at, deadlock, stuck }
}
