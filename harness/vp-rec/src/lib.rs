//! Recording collector, scriptable self-consistent filter, and the stepped worker threads
//! used by the dispatcher-level checks (C01-C04).

pub mod sched;

use serde::{Deserialize, Serialize};
use std::cell::Cell;
use std::sync::atomic::{AtomicBool, AtomicU64, Ordering};
use std::sync::mpsc::{channel, Receiver, Sender};
use std::sync::{Arc, Mutex};
use tracing_core::{
    collect::{Collect, Interest},
    field::{Field, Visit},
    span, Dispatch, Event, Level, LevelFilter, Metadata,
};

thread_local! {
    /// logical thread tag of the current worker (255 = untagged)
    pub static TAG: Cell<u8> = const { Cell::new(255) };
}
pub fn tag() -> u8 {
    TAG.with(|t| t.get())
}

pub fn rank(l: &Level) -> u8 {
    if *l == Level::ERROR {
        1
    } else if *l == Level::WARN {
        2
    } else if *l == Level::INFO {
        3
    } else if *l == Level::DEBUG {
        4
    } else {
        5
    }
}
pub fn filter_of_rank(r: u8) -> LevelFilter {
    [LevelFilter::OFF, LevelFilter::ERROR, LevelFilter::WARN, LevelFilter::INFO, LevelFilter::DEBUG, LevelFilter::TRACE][(r as usize).min(5)]
}
pub fn level_of_rank(r: u8) -> Level {
    [Level::ERROR, Level::WARN, Level::INFO, Level::DEBUG, Level::TRACE][(r as usize).clamp(1, 5) - 1]
}

/// A self-consistent filter: `always` implies `enabled` is true, `never` implies false, and
/// the hint (when given) is a true upper bound of what it can accept.
#[derive(Clone, Debug, Serialize, Deserialize, PartialEq, Eq, Hash)]
pub struct FilterSpec {
    /// accepts levels with rank <= max_level (0 = nothing, 5 = everything)
    pub max_level: u8,
    /// None = every target; Some(prefixes) = target must start with one of them
    pub targets: Option<Vec<String>>,
    /// dynamic filters answer `sometimes` and consult a runtime flag in `enabled`
    pub dynamic: bool,
    /// a dynamic filter may still answer `never` for what it statically rejects
    pub dyn_static_never: bool,
    /// rank published by max_level_hint (None = no hint); always >= max_level
    pub hint: Option<u8>,
}

impl FilterSpec {
    pub fn accept_all() -> Self {
        FilterSpec { max_level: 5, targets: None, dynamic: false, dyn_static_never: false, hint: None }
    }
    pub fn static_accepts(&self, level_rank: u8, target: &str) -> bool {
        level_rank <= self.max_level
            && match &self.targets {
                None => true,
                Some(ps) => ps.iter().any(|p| target.starts_with(p.as_str())),
            }
    }
    /// the filter's own decision at this moment
    pub fn accepts(&self, level_rank: u8, target: &str, flag: bool) -> bool {
        self.static_accepts(level_rank, target) && (!self.dynamic || flag)
    }
}

#[derive(Clone, Debug, PartialEq, Eq, Serialize, Deserialize)]
pub enum Kind {
    RegisterCallsite,
    Enabled,
    MaxLevelHint,
    NewSpan,
    Record,
    FollowsFrom,
    EventEnabled,
    Event,
    Enter,
    Exit,
    CloneSpan,
    TryClose,
    OnRegisterDispatch,
}

#[derive(Clone, Debug, Serialize, Deserialize)]
pub struct Call {
    pub kind: Kind,
    pub thread: u8,
    /// (target, level rank, is_span, name)
    pub target: String,
    pub level: u8,
    pub is_span: bool,
    pub name: String,
    pub id: u64,
    pub id2: u64,
    pub fields: Vec<(String, String)>,
    pub ret: bool,
}

impl Call {
    fn of_meta(kind: Kind, m: &Metadata<'_>) -> Call {
        Call {
            kind,
            thread: tag(),
            target: m.target().to_string(),
            level: rank(m.level()),
            is_span: m.is_span(),
            name: m.name().to_string(),
            id: 0,
            id2: 0,
            fields: vec![],
            ret: false,
        }
    }
    fn of_id(kind: Kind, id: &span::Id) -> Call {
        Call { kind, thread: tag(), target: String::new(), level: 0, is_span: true, name: String::new(), id: id.into_u64(), id2: 0, fields: vec![], ret: false }
    }
}

#[derive(Default)]
pub struct FieldGrab(pub Vec<(String, String)>);
impl Visit for FieldGrab {
    fn record_debug(&mut self, field: &Field, value: &dyn std::fmt::Debug) {
        self.0.push((field.name().to_string(), format!("{value:?}")));
    }
}

/// Called at the start of every `RecCollector::register_callsite` (lets a harness emit from
/// inside the callback, like the `EvilCollector`s of the existing deadlock tests).
#[allow(clippy::type_complexity)]
pub static REGISTER_HOOK: Mutex<Option<Arc<dyn Fn(&'static Metadata<'static>) + Send + Sync>>> = Mutex::new(None);

pub struct Shared {
    pub id: u32,
    pub log: Mutex<Vec<Call>>,
    pub flag: AtomicBool,
    pub spec: Mutex<FilterSpec>,
    pub next_id: AtomicU64,
    /// log `enabled`/`register_callsite`/`max_level_hint` queries too
    pub log_queries: bool,
    /// per logical thread: ids entered and not yet exited (most recent last); drives
    /// `current_span` so that `Span::current()` works against this collector
    /// the next `event`/`new_span` call panics after it has been logged
    pub panic_next: AtomicBool,
    /// `clone_span` hands out a fresh id per handle (the Collect contract allows it)
    pub fresh_clone_ids: AtomicBool,
    pub stacks: Mutex<std::collections::HashMap<u8, Vec<u64>>>,
    pub metas: Mutex<std::collections::HashMap<u64, &'static Metadata<'static>>>,
}

impl Shared {
    pub fn take(&self) -> Vec<Call> {
        std::mem::take(&mut *self.log.lock().unwrap())
    }
    pub fn snapshot(&self) -> Vec<Call> {
        self.log.lock().unwrap().clone()
    }
    fn push(&self, c: Call) {
        self.log.lock().unwrap().push(c)
    }
}

/// A collector that records every trait call. Span ids are `(collector id + 1) << 32 | n`, so
/// ids of different collectors never collide and a call that reaches the wrong collector is
/// recognisable.
pub struct RecCollector(pub Arc<Shared>);

impl RecCollector {
    pub fn new(id: u32, spec: FilterSpec, log_queries: bool) -> (Self, Arc<Shared>) {
        let s = Arc::new(Shared {
            id,
            log: Mutex::new(vec![]),
            flag: AtomicBool::new(true),
            spec: Mutex::new(spec),
            next_id: AtomicU64::new(1),
            log_queries,
            panic_next: AtomicBool::new(false),
            fresh_clone_ids: AtomicBool::new(false),
            stacks: Mutex::new(Default::default()),
            metas: Mutex::new(Default::default()),
        });
        (RecCollector(s.clone()), s)
    }
    pub fn owner_of(id: u64) -> u32 {
        ((id >> 32) as u32).wrapping_sub(1)
    }
}

impl Collect for RecCollector {
    fn on_register_dispatch(&self, _: &Dispatch) {
        let mut c = Call::of_id(Kind::OnRegisterDispatch, &span::Id::from_u64(u64::MAX));
        c.id = 0;
        self.0.push(c);
    }
    fn register_callsite(&self, m: &'static Metadata<'static>) -> Interest {
        let hook = REGISTER_HOOK.lock().unwrap().clone();
        if let Some(h) = hook {
            h(m);
        }
        let spec = self.0.spec.lock().unwrap().clone();
        let st = spec.static_accepts(rank(m.level()), m.target());
        let i = if spec.dynamic {
            if !st && spec.dyn_static_never {
                Interest::never()
            } else {
                Interest::sometimes()
            }
        } else if st {
            Interest::always()
        } else {
            Interest::never()
        };
        if self.0.log_queries {
            let mut c = Call::of_meta(Kind::RegisterCallsite, m);
            c.ret = !i.is_never();
            self.0.push(c);
        }
        i
    }
    fn enabled(&self, m: &Metadata<'_>) -> bool {
        let spec = self.0.spec.lock().unwrap().clone();
        let r = spec.accepts(rank(m.level()), m.target(), self.0.flag.load(Ordering::SeqCst));
        if self.0.log_queries {
            let mut c = Call::of_meta(Kind::Enabled, m);
            c.ret = r;
            self.0.push(c);
        }
        r
    }
    fn max_level_hint(&self) -> Option<LevelFilter> {
        self.0.spec.lock().unwrap().hint.map(filter_of_rank)
    }
    fn new_span(&self, a: &span::Attributes<'_>) -> span::Id {
        let n = self.0.next_id.fetch_add(1, Ordering::SeqCst);
        let id = ((self.0.id as u64 + 1) << 32) | n;
        let mut c = Call::of_meta(Kind::NewSpan, a.metadata());
        c.id = id;
        c.id2 = if a.is_root() {
            0
        } else if let Some(p) = a.parent() {
            p.into_u64()
        } else {
            1 // contextual
        };
        let mut g = FieldGrab::default();
        a.record(&mut g);
        c.fields = g.0;
        self.0.push(c);
        self.0.metas.lock().unwrap().insert(id, a.metadata());
        if self.0.panic_next.swap(false, Ordering::SeqCst) {
            panic!("scripted panic inside Collect::new_span");
        }
        span::Id::from_u64(id)
    }
    fn record(&self, id: &span::Id, values: &span::Record<'_>) {
        let mut c = Call::of_id(Kind::Record, id);
        let mut g = FieldGrab::default();
        values.record(&mut g);
        c.fields = g.0;
        self.0.push(c);
    }
    fn record_follows_from(&self, id: &span::Id, follows: &span::Id) {
        let mut c = Call::of_id(Kind::FollowsFrom, id);
        c.id2 = follows.into_u64();
        self.0.push(c);
    }
    fn event(&self, e: &Event<'_>) {
        let mut c = Call::of_meta(Kind::Event, e.metadata());
        let mut g = FieldGrab::default();
        e.record(&mut g);
        c.fields = g.0;
        c.id2 = if e.is_root() {
            0
        } else if let Some(p) = e.parent() {
            p.into_u64()
        } else {
            1
        };
        self.0.push(c);
        if self.0.panic_next.swap(false, Ordering::SeqCst) {
            panic!("scripted panic inside Collect::event");
        }
    }
    fn enter(&self, id: &span::Id) {
        self.0.push(Call::of_id(Kind::Enter, id));
        self.0.stacks.lock().unwrap().entry(tag()).or_default().push(id.into_u64());
    }
    fn exit(&self, id: &span::Id) {
        self.0.push(Call::of_id(Kind::Exit, id));
        let mut st = self.0.stacks.lock().unwrap();
        let v = st.entry(tag()).or_default();
        if let Some(p) = v.iter().rposition(|x| *x == id.into_u64()) {
            v.remove(p);
        }
    }
    fn clone_span(&self, id: &span::Id) -> span::Id {
        let mut c = Call::of_id(Kind::CloneSpan, id);
        let new = if self.0.fresh_clone_ids.load(Ordering::SeqCst) {
            let n = self.0.next_id.fetch_add(1, Ordering::SeqCst);
            let new = ((self.0.id as u64 + 1) << 32) | n;
            let mut metas = self.0.metas.lock().unwrap();
            if let Some(m) = metas.get(&id.into_u64()).copied() {
                metas.insert(new, m);
            }
            new
        } else {
            id.into_u64()
        };
        c.id2 = new;
        self.0.push(c);
        span::Id::from_u64(new)
    }
    fn try_close(&self, id: span::Id) -> bool {
        self.0.push(Call::of_id(Kind::TryClose, &id));
        false
    }
    fn current_span(&self) -> span::Current {
        let top = self.0.stacks.lock().unwrap().get(&tag()).and_then(|v| v.last().copied());
        match top.and_then(|id| self.0.metas.lock().unwrap().get(&id).map(|m| (id, *m))) {
            Some((id, m)) => span::Current::new(span::Id::from_u64(id), m),
            None => span::Current::none(),
        }
    }
}

// ---------------------------------------------------------------------------------------
// stepped worker threads: the interpreter hands one operation at a time to a named logical
// thread and waits for it, so the cross-thread order of operations is part of the case.

type Job<S> = Box<dyn FnOnce(&mut S) + Send>;

pub struct Stepper<S: Default + 'static> {
    workers: Vec<Option<(Sender<Job<S>>, std::thread::JoinHandle<()>)>>,
}

impl<S: Default + 'static> Stepper<S> {
    pub fn new(n: usize) -> Self {
        Stepper { workers: (0..n).map(|_| None).collect() }
    }
    pub fn started(&self, t: usize) -> bool {
        self.workers[t].is_some()
    }
    /// Run `f` on logical thread `t` (spawned at first use) and wait for its result.
    /// Err = the operation panicked.
    pub fn run<R: Send + 'static>(&mut self, t: usize, f: impl FnOnce(&mut S) -> R + Send + 'static) -> Result<R, String> {
        if self.workers[t].is_none() {
            let (tx, rx): (Sender<Job<S>>, Receiver<Job<S>>) = channel();
            let h = std::thread::Builder::new()
                .name(format!("T{t}"))
                .stack_size(4 << 20)
                .spawn(move || {
                    TAG.with(|c| c.set(t as u8));
                    let mut state = S::default();
                    while let Ok(job) = rx.recv() {
                        job(&mut state);
                    }
                    drop(state);
                })
                .expect("spawn worker");
            self.workers[t] = Some((tx, h));
        }
        let (rtx, rrx) = channel();
        let job: Job<S> = Box::new(move |s: &mut S| {
            let r = std::panic::catch_unwind(std::panic::AssertUnwindSafe(|| f(s)));
            let _ = rtx.send(r.map_err(|p| {
                if let Some(s) = p.downcast_ref::<&str>() {
                    (*s).to_string()
                } else if let Some(s) = p.downcast_ref::<String>() {
                    s.clone()
                } else {
                    "<panic>".to_string()
                }
            }));
        });
        self.workers[t].as_ref().unwrap().0.send(job).map_err(|_| "worker gone".to_string())?;
        rrx.recv().map_err(|_| "worker died".to_string())?
    }
    /// Ends logical thread `t` (its thread-local state and S are dropped) and waits for it.
    pub fn finish(&mut self, t: usize) {
        if let Some((tx, h)) = self.workers[t].take() {
            drop(tx);
            let _ = h.join();
        }
    }
}

impl<S: Default + 'static> Drop for Stepper<S> {
    fn drop(&mut self) {
        for t in 0..self.workers.len() {
            self.finish(t);
        }
    }
}
