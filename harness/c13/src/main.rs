//! C13 — the fmt layer writes one complete record per event to exactly the selected writers.
//!
//! Case = formatter (full/compact/pretty/json) x options x writer expression (depth <= 3 over
//! three recording sinks) x 1-8 real threads, each running a small program (nested spans with
//! fields, events with fields, optionally a first event whose Debug impl panics and is caught).
//! Oracle: denotation of the writer expression (which sinks get a record of level/target);
//! each selected sink must log exactly one `make_writer_for` with that metadata and exactly one
//! `write` call holding the whole newline-terminated record (one line for full/compact/json),
//! per thread in program order; the record must name the level, the event's fields and the
//! spans in scope in the order the format documents.

use proptest::prelude::*;
use serde::{Deserialize, Serialize};
use std::io;
use std::sync::{Arc, Barrier, Mutex};
use tracing::Level;
use tracing_core::Metadata;
use tracing_subscriber::fmt::format::FmtSpan;
use tracing_subscriber::fmt::writer::{BoxMakeWriter, MakeWriter, MakeWriterExt};
use tracing_subscriber::fmt::{self, time::FormatTime};
use tracing_subscriber::registry::Registry;
use tracing_subscriber::subscribe::{CollectExt, Subscribe};
use vp_engine::{Isolation, Outcome, Property, Tier};

#[derive(Clone, Copy, Debug, Serialize, Deserialize, PartialEq)]
enum Fmt {
    Full,
    Compact,
    Pretty,
    Json,
}
#[derive(Clone, Copy, Debug, Serialize, Deserialize, PartialEq)]
struct Opts {
    target: bool,
    level: bool,
    thread_ids: bool,
    thread_names: bool,
    file: bool,
    line: bool,
    ansi: bool,
    time: bool,
    /// bit 0 NEW, 1 ENTER, 2 EXIT, 3 CLOSE
    span_events: u8,
    /// the timer is chosen after the span events (the builder calls in the other order)
    #[serde(default)]
    timer_last: bool,
}
#[derive(Clone, Debug, Serialize, Deserialize, PartialEq)]
enum W {
    Sink(u8),
    MaxLevel(Box<W>, u8),
    MinLevel(Box<W>, u8),
    /// with_filter(|m| target index bit set in mask)
    Filter(Box<W>, u8),
    Tee(Box<W>, Box<W>),
    /// `left.with_max_level(l).or_else(right)`
    OrElseMax(Box<W>, u8, Box<W>),
    OrElseFilter(Box<W>, u8, Box<W>),
    Boxed(Box<W>),
}
#[derive(Clone, Debug, Serialize, Deserialize, PartialEq)]
struct Prog {
    /// nesting depth 0..=3 of entered spans (root, mid, leaf)
    depth: u8,
    rid: u64,
    who: String,
    n: i64,
    flag: bool,
    /// the first event has a field whose Debug impl panics half-way (caught by the caller)
    panic_first: bool,
    events: Vec<Ev>,
    /// before event `.0` the field `late` of span `.1` (0 root, 1 mid, 2 leaf) is recorded with
    /// value `.2`: every later record that shows the span has to show the value
    #[serde(default)]
    late: Option<(u8, u8, i64)>,
    /// right after that record the same field is recorded again with this value (the later
    /// value is the one to show)
    #[serde(default)]
    late_again: Option<i64>,
    /// the innermost span of the thread is entered a second time while it is entered (and left
    /// twice): one more enter / exit record pair
    #[serde(default)]
    reenter: bool,
    /// (with panic_first) the event whose Debug impl panics is emitted inside a span that is
    /// created and entered inside the catch_unwind closure: its guard and handle are dropped by
    /// the unwinding, and the exit / close records that are due then have to be written
    #[serde(default)]
    panic_in_span: bool,
}
#[derive(Clone, Debug, Serialize, Deserialize, PartialEq)]
struct Ev {
    /// 1..=5
    level: u8,
    /// 0 = "a", 1 = "c"
    target: u8,
    k: i64,
    s: String,
}
#[derive(Clone, Debug, Serialize, Deserialize)]
struct Case {
    fmt: Fmt,
    opts: Opts,
    writer: W,
    threads: Vec<Prog>,
    /// all threads work inside clones of ONE root span; thread `.0` records that span's field
    /// `late` with a value whose Debug impl is slow (value `.2`) before its event `.1`, while the
    /// other threads emit: every record has to show the root with its creation fields
    #[serde(default)]
    shared: Option<(u8, u8, i64)>,
    /// the sinks accept at most this many bytes per write call (a writer may legally do that);
    /// sink 0 takes that many, sink 1 everything, sink 2 about twice as many: fmt hands records
    /// over with write_all, and every combinator (the tee included) forwards write_all to each
    /// side, so every selected sink still has to end up with the whole record
    #[serde(default)]
    short: Option<u8>,
    /// the sinks are plain `io::Write` values behind the library's own `Mutex<W>` MakeWriter (one
    /// mutex per sink, shared by every leaf that names the sink): a writer holds the lock from
    /// make_writer until it is dropped, so the pieces of two records never interleave in a sink
    /// (only tee-free expressions and line-oriented formats)
    #[serde(default)]
    mutex: bool,
}

const TGT: [&str; 2] = ["a", "c"];

// ---- recording sinks --------------------------------------------------------------------------
#[derive(Clone, Debug)]
enum SinkEv {
    Make { level: u8, target: String, thread: u8, with_meta: bool, wid: usize },
    Write { bytes: Vec<u8>, thread: u8, wid: usize },
}
#[derive(Clone)]
struct Sink {
    log: Arc<Mutex<Vec<SinkEv>>>,
    /// 0 = accept everything
    cap: usize,
}
struct SinkWriter {
    log: Arc<Mutex<Vec<SinkEv>>>,
    cap: usize,
    /// which make_writer call handed this writer out
    wid: usize,
}
impl io::Write for SinkWriter {
    fn write(&mut self, buf: &[u8]) -> io::Result<usize> {
        let n = if self.cap > 0 { buf.len().min(self.cap) } else { buf.len() };
        self.log.lock().unwrap().push(SinkEv::Write { bytes: buf[..n].to_vec(), thread: vp_rec::tag(), wid: self.wid });
        Ok(n)
    }
    fn flush(&mut self) -> io::Result<()> {
        Ok(())
    }
}
impl<'a> MakeWriter<'a> for Sink {
    type Writer = SinkWriter;
    fn make_writer(&'a self) -> SinkWriter {
        let mut g = self.log.lock().unwrap();
        let wid = g.len();
        g.push(SinkEv::Make { level: 0, target: String::new(), thread: vp_rec::tag(), with_meta: false, wid });
        SinkWriter { log: self.log.clone(), cap: self.cap, wid }
    }
    fn make_writer_for(&'a self, m: &Metadata<'_>) -> SinkWriter {
        let mut g = self.log.lock().unwrap();
        let wid = g.len();
        g.push(SinkEv::Make { level: vp_rec::rank(m.level()), target: m.target().to_string(), thread: vp_rec::tag(), with_meta: true, wid });
        SinkWriter { log: self.log.clone(), cap: self.cap, wid }
    }
}

/// a plain writer (no MakeWriter of its own) that accepts at most `cap` bytes per call
struct RawW {
    log: Arc<Mutex<Vec<SinkEv>>>,
    cap: usize,
}
impl io::Write for RawW {
    fn write(&mut self, buf: &[u8]) -> io::Result<usize> {
        let n = if self.cap > 0 { buf.len().min(self.cap) } else { buf.len() };
        self.log.lock().unwrap().push(SinkEv::Write { bytes: buf[..n].to_vec(), thread: vp_rec::tag(), wid: usize::MAX });
        // let another thread in, if the lock that should keep it out is not held
        std::thread::yield_now();
        Ok(n)
    }
    fn flush(&mut self) -> io::Result<()> {
        Ok(())
    }
}
/// hands out the library's `Mutex<W>` writers for a mutex shared between leaves
struct SharedMutex(Arc<Mutex<RawW>>);
impl<'a> MakeWriter<'a> for SharedMutex {
    type Writer = <Mutex<RawW> as MakeWriter<'a>>::Writer;
    fn make_writer(&'a self) -> Self::Writer {
        <Mutex<RawW> as MakeWriter<'a>>::make_writer(&self.0)
    }
    fn make_writer_for(&'a self, m: &Metadata<'_>) -> Self::Writer {
        <Mutex<RawW> as MakeWriter<'a>>::make_writer_for(&self.0, m)
    }
}
thread_local! {
    static MUTEXES: std::cell::RefCell<Option<Vec<Arc<Mutex<RawW>>>>> = const { std::cell::RefCell::new(None) };
}

fn build_writer(w: &W, sinks: &[Sink]) -> BoxMakeWriter {
    let tmask = |mask: u8| move |m: &Metadata<'_>| TGT.iter().position(|t| m.target() == *t || (*t == "a" && m.target() == "a::b")).map(|i| mask >> i & 1 == 1).unwrap_or(false);
    match w {
        W::Sink(i) => match MUTEXES.with(|m| m.borrow().as_ref().map(|v| v[*i as usize % 3].clone())) {
            Some(m) => BoxMakeWriter::new(SharedMutex(m)),
            None => BoxMakeWriter::new(sinks[*i as usize % 3].clone()),
        },
        W::MaxLevel(a, l) => BoxMakeWriter::new(build_writer(a, sinks).with_max_level(vp_rec::level_of_rank(*l))),
        W::MinLevel(a, l) => BoxMakeWriter::new(build_writer(a, sinks).with_min_level(vp_rec::level_of_rank(*l))),
        W::Filter(a, mask) => BoxMakeWriter::new(build_writer(a, sinks).with_filter(tmask(*mask))),
        W::Tee(a, b) => BoxMakeWriter::new(build_writer(a, sinks).and(build_writer(b, sinks))),
        W::OrElseMax(a, l, b) => BoxMakeWriter::new(build_writer(a, sinks).with_max_level(vp_rec::level_of_rank(*l)).or_else(build_writer(b, sinks))),
        W::OrElseFilter(a, mask, b) => BoxMakeWriter::new(build_writer(a, sinks).with_filter(tmask(*mask)).or_else(build_writer(b, sinks))),
        W::Boxed(a) => BoxMakeWriter::new(build_writer(a, sinks)),
    }
}
/// which sinks (with multiplicity) a record of (level, target index) reaches
fn denote(w: &W, level: u8, ti: usize, out: &mut Vec<u8>) {
    match w {
        W::Sink(i) => out.push(*i % 3),
        W::MaxLevel(a, l) => {
            if level <= (*l).clamp(1, 5) {
                denote(a, level, ti, out)
            }
        }
        W::MinLevel(a, l) => {
            if level >= (*l).clamp(1, 5) {
                denote(a, level, ti, out)
            }
        }
        W::Filter(a, mask) => {
            if mask >> ti & 1 == 1 {
                denote(a, level, ti, out)
            }
        }
        W::Tee(a, b) => {
            denote(a, level, ti, out);
            denote(b, level, ti, out)
        }
        W::OrElseMax(a, l, b) => {
            if level <= (*l).clamp(1, 5) {
                denote(a, level, ti, out)
            } else {
                denote(b, level, ti, out)
            }
        }
        W::OrElseFilter(a, mask, b) => {
            if mask >> ti & 1 == 1 {
                denote(a, level, ti, out)
            } else {
                denote(b, level, ti, out)
            }
        }
        W::Boxed(a) => denote(a, level, ti, out),
    }
}
fn depth(w: &W) -> u32 {
    match w {
        W::Sink(_) => 0,
        W::MaxLevel(a, _) | W::MinLevel(a, _) | W::Filter(a, _) | W::Boxed(a) => 1 + depth(a),
        W::Tee(a, b) | W::OrElseMax(a, _, b) | W::OrElseFilter(a, _, b) => 1 + depth(a).max(depth(b)),
    }
}

struct FixedTime;
impl FormatTime for FixedTime {
    fn format_time(&self, w: &mut fmt::format::Writer<'_>) -> std::fmt::Result {
        w.write_str("T0 ")
    }
}

type BS = Box<dyn Subscribe<Registry> + Send + Sync>;
fn build_layer(f: Fmt, o: Opts, mw: BoxMakeWriter) -> BS {
    let mut flags = FmtSpan::NONE;
    if o.span_events & 1 != 0 {
        flags |= FmtSpan::NEW;
    }
    if o.span_events & 2 != 0 {
        flags |= FmtSpan::ENTER;
    }
    if o.span_events & 4 != 0 {
        flags |= FmtSpan::EXIT;
    }
    if o.span_events & 8 != 0 {
        flags |= FmtSpan::CLOSE;
    }
    macro_rules! common {
        ($b:expr) => {
            $b.with_ansi(o.ansi).with_target(o.target).with_level(o.level).with_thread_ids(o.thread_ids).with_thread_names(o.thread_names).with_file(o.file).with_line_number(o.line).with_span_events(flags.clone())
        };
    }
    let base = fmt::subscriber().with_writer(mw);
    if o.timer_last {
        return match (f, o.time) {
            (Fmt::Full, true) => common!(base).with_timer(FixedTime).boxed(),
            (Fmt::Full, false) => common!(base).without_time().boxed(),
            (Fmt::Compact, true) => common!(base.compact()).with_timer(FixedTime).boxed(),
            (Fmt::Compact, false) => common!(base.compact()).without_time().boxed(),
            (Fmt::Pretty, true) => common!(base.pretty()).with_timer(FixedTime).boxed(),
            (Fmt::Pretty, false) => common!(base.pretty()).without_time().boxed(),
            (Fmt::Json, true) => common!(base.json()).with_timer(FixedTime).boxed(),
            (Fmt::Json, false) => common!(base.json()).without_time().boxed(),
        };
    }
    match (f, o.time) {
        (Fmt::Full, true) => common!(base.with_timer(FixedTime)).boxed(),
        (Fmt::Full, false) => common!(base.without_time()).boxed(),
        (Fmt::Compact, true) => common!(base.compact().with_timer(FixedTime)).boxed(),
        (Fmt::Compact, false) => common!(base.compact().without_time()).boxed(),
        (Fmt::Pretty, true) => common!(base.pretty().with_timer(FixedTime)).boxed(),
        (Fmt::Pretty, false) => common!(base.pretty().without_time()).boxed(),
        (Fmt::Json, true) => common!(base.json().with_timer(FixedTime)).boxed(),
        (Fmt::Json, false) => common!(base.json().without_time()).boxed(),
    }
}

struct SlowDbg(i64);
impl std::fmt::Debug for SlowDbg {
    fn fmt(&self, f: &mut std::fmt::Formatter<'_>) -> std::fmt::Result {
        std::thread::sleep(std::time::Duration::from_millis(3));
        write!(f, "slow{}", self.0)
    }
}
struct Bomb;
impl std::fmt::Debug for Bomb {
    fn fmt(&self, f: &mut std::fmt::Formatter<'_>) -> std::fmt::Result {
        f.write_str("PARTIALTEXT")?;
        panic!("scripted panic inside a Debug implementation")
    }
}

macro_rules! ev {
    ($lvl:ident, $tgt:literal, $id:expr, $k:expr, $s:expr) => {
        // (`log`: an ordinary field that merely has the name tracing-log's own fields start with)
        tracing::event!(target: $tgt, Level::$lvl, k = $k, s = $s, log = $k, "{}", $id)
    };
}
fn emit(level: u8, target: u8, id: &str, k: i64, s: &str) {
    match (level, target % 2) {
        (1, 0) => ev!(ERROR, "a", id, k, s),
        (2, 0) => ev!(WARN, "a", id, k, s),
        (3, 0) => ev!(INFO, "a", id, k, s),
        (4, 0) => ev!(DEBUG, "a", id, k, s),
        (5, 0) => ev!(TRACE, "a", id, k, s),
        (1, _) => ev!(ERROR, "c", id, k, s),
        (2, _) => ev!(WARN, "c", id, k, s),
        (3, _) => ev!(INFO, "c", id, k, s),
        (4, _) => ev!(DEBUG, "c", id, k, s),
        _ => ev!(TRACE, "c", id, k, s),
    }
}

/// one expected record
#[derive(Clone, Debug)]
struct Want {
    level: u8,
    ti: usize,
    /// tokens that identify the record (message id for events; lifecycle word + span name)
    id: String,
    is_event: bool,
    k: i64,
    s: String,
    /// spans in scope, root first: (name, target, [(field, value text as the text formats print it, json value)])
    scope: Vec<(&'static str, &'static str, Vec<(&'static str, String, serde_json::Value)>)>,
    /// for lifecycle records: the span itself
    own: Option<&'static str>,
}

fn strip_ansi(s: &str) -> String {
    let mut out = String::new();
    let mut it = s.chars().peekable();
    while let Some(c) = it.next() {
        if c == '\u{1b}' {
            // ESC [ ... letter
            for d in it.by_ref() {
                if d.is_ascii_alphabetic() {
                    break;
                }
            }
        } else {
            out.push(c);
        }
    }
    out
}

fn check_record(case: &Case, bytes: &[u8], w: &Want) -> Result<(), (String, String)> {
    let text = match std::str::from_utf8(bytes) {
        Ok(t) => t,
        Err(_) => return Err(("record is not UTF-8".into(), format!("{bytes:?}"))),
    };
    let bad = |sig: &str, d: String| Err((sig.to_string(), format!("{d}; record = {text:?}")));
    if !text.ends_with('\n') {
        return bad("record not terminated by a newline (or split over several writes)", "no trailing newline".into());
    }
    let lines = text.matches('\n').count();
    if case.fmt != Fmt::Pretty && lines != 1 {
        return bad("record is not exactly one line", format!("{lines} newlines"));
    }
    if !case.opts.ansi && text.contains('\u{1b}') {
        return bad("ANSI escape although ansi is off", "ESC found".into());
    }
    let plain = if case.fmt == Fmt::Json { text.to_string() } else { strip_ansi(text) };
    if !plain.contains(&w.id) {
        return bad("record does not belong to the emission it was written for (wrong or mixed content)", format!("expected token {:?}", w.id));
    }
    if plain.contains("PARTIALTEXT") || plain.matches("m_").count() > 1 {
        return bad("record contains text of another (aborted) record", "stale text".into());
    }
    let lvl_names = ["", "ERROR", "WARN", "INFO", "DEBUG", "TRACE"];
    let sym = ["", "X", "!", "i", ":", "."];
    match case.fmt {
        Fmt::Json => {
            let v: serde_json::Value = match serde_json::from_str(plain.trim_end()) {
                Ok(v) => v,
                Err(e) => return bad("JSON record does not parse", e.to_string()),
            };
            if case.opts.level && v["level"] != lvl_names[w.level as usize] {
                return bad("record does not name the level", format!("level {:?}", v["level"]));
            }
            if case.opts.target && v["target"] != [TGT[0], TGT[1], "a::b"][w.ti] {
                return bad("record does not name the target", format!("target {:?}", v["target"]));
            }
            if w.is_event {
                if v["fields"]["k"] != w.k || v["fields"]["s"] != w.s.as_str() || v["fields"]["log"] != w.k {
                    return bad("record lacks an event field or its value", format!("fields {:?}", v["fields"]));
                }
            }
            if let Some(own) = w.own {
                if v["span"]["name"] != own {
                    return bad("lifecycle record does not name its span", format!("span {:?}, expected {own}", v["span"]));
                }
            }
            let names: Vec<&str> = v["spans"].as_array().map(|a| a.iter().filter_map(|x| x["name"].as_str()).collect()).unwrap_or_default();
            let want: Vec<&str> = w.scope.iter().map(|s| s.0).collect();
            if names != want {
                return bad("span list is not the spans in scope from root to leaf", format!("spans {names:?}, expected {want:?}"));
            }
            for (i, sp) in w.scope.iter().enumerate() {
                for (f, _, jv) in &sp.2 {
                    if &v["spans"][i][*f] != jv {
                        return bad("span field missing or wrong in the span list", format!("span {} field {f}: {:?}, expected {jv:?}", sp.0, v["spans"][i][*f]));
                    }
                }
            }
        }
        _ => {
            if case.opts.level {
                let ok = match case.fmt {
                    Fmt::Compact => plain.trim_start().trim_start_matches("T0").trim_start().starts_with(sym[w.level as usize]),
                    _ => plain.contains(lvl_names[w.level as usize]),
                };
                if !ok {
                    return bad("record does not name the level", format!("level rank {}", w.level));
                }
            }
            if w.is_event {
                let (kf, sf, lf) = match case.fmt {
                    Fmt::Pretty => (format!("k: {}", w.k), format!("s: {:?}", w.s), format!("log: {}", w.k)),
                    _ => (format!("k={}", w.k), format!("s={:?}", w.s), format!("log={}", w.k)),
                };
                if !plain.contains(&kf) || !plain.contains(&sf) || !plain.contains(&lf) {
                    return bad("record lacks an event field or its value", format!("expected {kf:?} and {sf:?}"));
                }
            }
            // span context
            let mut pos = 0usize;
            let order: Vec<usize> = match case.fmt {
                Fmt::Pretty => (0..w.scope.len()).rev().collect(),
                _ => (0..w.scope.len()).collect(),
            };
            for i in order {
                let sp = &w.scope[i];
                let needle = match case.fmt {
                    Fmt::Full => format!("{}{{", sp.0),
                    Fmt::Pretty => if case.opts.target { format!("in {}::{}", sp.1, sp.0) } else { format!("in {}", sp.0) },
                    _ => String::new(),
                };
                if !needle.is_empty() {
                    match plain[pos..].find(&needle) {
                        Some(p) => pos += p + needle.len(),
                        None => return bad("span in scope missing from the record or out of nesting order", format!("span {} not found after position {pos}", sp.0)),
                    }
                }
                for (f, txt, _) in &sp.2 {
                    let needle = match case.fmt {
                        Fmt::Pretty => format!("{f}: {txt}"),
                        _ => format!("{f}={txt}"),
                    };
                    match plain[pos..].find(&needle) {
                        Some(p) => pos += p + needle.len(),
                        None => return bad("span field missing from the record or out of nesting order", format!("{needle:?} not found after position {pos}")),
                    }
                }
            }
        }
    }
    Ok(())
}

fn run_case(case: &Case) -> Outcome {
    fn has_tee(w: &W) -> bool {
        match w {
            W::Sink(_) => false,
            W::Tee(..) => true,
            W::MaxLevel(a, _) | W::MinLevel(a, _) | W::Filter(a, _) | W::Boxed(a) => has_tee(a),
            W::OrElseMax(a, _, b) | W::OrElseFilter(a, _, b) => has_tee(a) || has_tee(b),
        }
    }
    // short sinks: sink 0 takes `cap` bytes per call, sink 1 everything, sink 2 twice as much as
    // sink 0 (under a tee the two sides then make different progress per call)
    let cap = match case.short {
        Some(c) => 5 + c as usize % 60,
        _ => 0,
    };
    let sinks: Vec<Sink> = (0..3).map(|i| Sink { log: Default::default(), cap: if cap == 0 { 0 } else { [cap, 0, cap * 2 + 3][i] } }).collect();
    let mut opts_run = case.opts;
    if case.shared.is_some() {
        opts_run.span_events = 0; // whoever drops the last clone would emit the shared root's close record
    }
    // (every sink at most once in the expression: the library's writer keeps its sink locked for
    // as long as it lives, so a defect that builds a second writer for the same sink while the
    // first is alive would hang the case instead of failing it; with distinct sinks the same
    // defect shows up as a routing error)
    fn leaves(w: &W, out: &mut Vec<u8>) {
        match w {
            W::Sink(i) => out.push(*i % 3),
            W::MaxLevel(a, _) | W::MinLevel(a, _) | W::Filter(a, _) | W::Boxed(a) => leaves(a, out),
            W::Tee(a, b) | W::OrElseMax(a, _, b) | W::OrElseFilter(a, _, b) => {
                leaves(a, out);
                leaves(b, out)
            }
        }
    }
    let mut lv = vec![];
    leaves(&case.writer, &mut lv);
    let distinct = (0..lv.len()).all(|i| !lv[..i].contains(&lv[i]));
    let mutex = case.mutex && !has_tee(&case.writer) && distinct && case.fmt != Fmt::Pretty;
    MUTEXES.with(|m| *m.borrow_mut() = if mutex { Some(sinks.iter().map(|s| Arc::new(Mutex::new(RawW { log: s.log.clone(), cap: s.cap }))).collect()) } else { None });
    let layer = build_layer(case.fmt, opts_run, build_writer(&case.writer, &sinks));
    MUTEXES.with(|m| *m.borrow_mut() = None);
    let dispatch = tracing_core::Dispatch::new(Registry::default().with(layer));
    let nthreads = case.threads.len();
    let barrier = Arc::new(Barrier::new(nthreads));
    let mut wants: Vec<Vec<Want>> = vec![];
    // expected records per thread
    for (t, p) in case.threads.iter().enumerate() {
        let mut v = vec![];
        // with a shared root every thread sees the root created from thread 0's values
        let rp = if case.shared.is_some() { &case.threads[0] } else { p };
        let spans: Vec<(&'static str, &'static str, usize, u8, Vec<(&'static str, String, serde_json::Value)>)> = vec![
            ("root", "a", 0, 3, vec![("rid", rp.rid.to_string(), serde_json::json!(rp.rid)), ("who", format!("{:?}", rp.who), serde_json::json!(rp.who))]),
            ("mid", "a::b", 2, 4, vec![("n", p.n.to_string(), serde_json::json!(p.n))]),
            ("leaf", "c", 1, 5, vec![("flag", p.flag.to_string(), serde_json::json!(p.flag))]),
        ];
        let d = if case.shared.is_some() { (p.depth as usize).clamp(1, 3) } else { (p.depth as usize).min(3) };
        let span_events = if case.shared.is_some() { 0 } else { case.opts.span_events };
        let scope_of = |n: usize| -> Vec<(&'static str, &'static str, Vec<(&'static str, String, serde_json::Value)>)> { spans[..n].iter().map(|s| (s.0, s.1, s.4.clone())).collect() };
        // JSON lists the spans *entered* on the thread in `spans` (the span itself is in `span`);
        // at new/exit/close time the span itself is not entered
        let json = case.fmt == Fmt::Json;
        let life = |word: &str, i: usize, scope_n: usize| Want { level: spans[i].3, ti: spans[i].2, id: word.to_string(), is_event: false, k: 0, s: String::new(), scope: scope_of(scope_n), own: Some(spans[i].0) };
        for i in 0..d {
            if span_events & 1 != 0 {
                v.push(life("new", i, if json { i } else { i + 1 }));
            }
            if span_events & 2 != 0 {
                v.push(life("enter", i, i + 1));
            }
        }
        let reenter = p.reenter && d > 0 && case.shared.is_none();
        if reenter && span_events & 2 != 0 {
            v.push(life("enter", d - 1, d));
        }
        if p.panic_first && p.panic_in_span && case.shared.is_none() {
            let tmp = ("tmp", "a", vec![("t", "1".to_string(), serde_json::json!(1))]);
            let mut with_tmp = scope_of(d);
            with_tmp.push(tmp.clone());
            let mk = |word: &str, inside: bool| Want { level: 3, ti: 0, id: word.to_string(), is_event: false, k: 0, s: String::new(), scope: if inside || !json { with_tmp.clone() } else { scope_of(d) }, own: Some("tmp") };
            if span_events & 1 != 0 {
                v.push(mk("new", false));
            }
            if span_events & 2 != 0 {
                v.push(mk("enter", true));
            }
            if span_events & 4 != 0 {
                v.push(mk("exit", false));
            }
            if span_events & 8 != 0 {
                v.push(mk("close", false));
            }
        }
        let mut spans = spans;
        for (n, e) in p.events.iter().enumerate() {
            if let Some((at, which, val)) = p.late {
                let k = which as usize % d.max(1);
                if at as usize % p.events.len() == n && d > 0 && !(case.shared.is_some() && k == 0) {
                    let fin = p.late_again.unwrap_or(val);
                    spans[k].4.push(("late", fin.to_string(), serde_json::json!(fin)));
                }
            }
            if let Some((rt, at, val)) = case.shared {
                if rt as usize % case.threads.len() == t && at as usize % p.events.len() == n {
                    spans[0].4.push(("late", format!("slow{val}"), serde_json::json!(format!("slow{val}"))));
                }
            }
            let scope_of = |n: usize| -> Vec<(&'static str, &'static str, Vec<(&'static str, String, serde_json::Value)>)> { spans[..n].iter().map(|s| (s.0, s.1, s.4.clone())).collect() };
            v.push(Want { level: e.level.clamp(1, 5), ti: (e.target % 2) as usize, id: format!("m_{t}_{n}_"), is_event: true, k: e.k, s: e.s.clone(), scope: scope_of(d), own: None });
        }
        let scope_of = |n: usize| -> Vec<(&'static str, &'static str, Vec<(&'static str, String, serde_json::Value)>)> { spans[..n].iter().map(|s| (s.0, s.1, s.4.clone())).collect() };
        let life = |word: &str, i: usize, scope_n: usize| Want { level: spans[i].3, ti: spans[i].2, id: word.to_string(), is_event: false, k: 0, s: String::new(), scope: scope_of(scope_n), own: Some(spans[i].0) };
        if reenter && span_events & 4 != 0 {
            // the first of the two exits: the span is still entered afterwards
            v.push(life("exit", d - 1, d));
        }
        for i in (0..d).rev() {
            if span_events & 4 != 0 {
                v.push(life("exit", i, if json { i } else { i + 1 }));
            }
            if span_events & 8 != 0 {
                v.push(life("close", i, if json { i } else { i + 1 }));
            }
        }
        wants.push(v);
    }
    // run
    let shared_root: Option<tracing::Span> = case.shared.map(|_| {
        let p0 = &case.threads[0];
        tracing_core::dispatch::with_default(&dispatch, || tracing::info_span!(target: "a", "root", rid = p0.rid, who = p0.who.as_str(), late = tracing::field::Empty))
    });
    std::thread::scope(|sc| {
        for (t, p) in case.threads.iter().enumerate() {
            let d = dispatch.clone();
            let b = barrier.clone();
            let shared_root = shared_root.clone();
            let shared = case.shared;
            let nthreads = case.threads.len();
            std::thread::Builder::new()
                .name(format!("w{t}"))
                .spawn_scoped(sc, move || {
                    vp_rec::TAG.with(|c| c.set(t as u8));
                    let _g = tracing_core::dispatch::set_default(&d);
                    b.wait();
                    let depth = if shared.is_some() { p.depth.clamp(1, 3) } else { p.depth.min(3) };
                    let root = match shared_root {
                        Some(r) => Some(r),
                        None if depth >= 1 => Some(tracing::info_span!(target: "a", "root", rid = p.rid, who = p.who.as_str(), late = tracing::field::Empty)),
                        None => None,
                    };
                    let _r = root.as_ref().map(|s| s.enter());
                    let mid = if depth >= 2 { Some(tracing::debug_span!(target: "a::b", "mid", n = p.n, late = tracing::field::Empty)) } else { None };
                    let _m = mid.as_ref().map(|s| s.enter());
                    let leaf = if depth >= 3 { Some(tracing::trace_span!(target: "c", "leaf", flag = p.flag, late = tracing::field::Empty)) } else { None };
                    let _l = leaf.as_ref().map(|s| s.enter());
                    let _again = if p.reenter && shared.is_none() && depth > 0 { [&root, &mid, &leaf][depth as usize - 1].as_ref().map(|s| s.enter()) } else { None };
                    if p.panic_first && p.panic_in_span && shared.is_none() {
                        let r = std::panic::catch_unwind(|| {
                            let tmp = tracing::info_span!(target: "a", "tmp", t = 1);
                            let _g = tmp.enter();
                            tracing::info!(target: "a", bad = ?Bomb, "m_bomb_")
                        });
                        assert!(r.is_err());
                    } else if p.panic_first {
                        let r = std::panic::catch_unwind(|| tracing::info!(target: "a", bad = ?Bomb, "m_bomb_"));
                        assert!(r.is_err());
                    }
                    for (n, e) in p.events.iter().enumerate() {
                        if let Some((at, which, val)) = p.late {
                            let k = which as usize % (depth as usize).max(1);
                            if at as usize % p.events.len() == n && depth > 0 && !(shared.is_some() && k == 0) {
                                let sp = [&root, &mid, &leaf][k];
                                if let Some(sp) = sp {
                                    sp.record("late", val);
                                    if let Some(again) = p.late_again {
                                        sp.record("late", again);
                                    }
                                }
                            }
                        }
                        if let Some((rt, at, val)) = shared {
                            if rt as usize % nthreads == t && at as usize % p.events.len() == n {
                                if let Some(r) = &root {
                                    r.record("late", tracing::field::debug(SlowDbg(val)));
                                }
                            }
                        }
                        emit(e.level.clamp(1, 5), e.target, &format!("m_{t}_{n}_"), e.k, &e.s);
                    }
                    drop(_again);
                    drop(_l);
                    drop(leaf);
                    drop(_m);
                    drop(mid);
                    drop(_r);
                    drop(root);
                })
                .unwrap();
        }
    });
    // judge
    for (si, sink) in sinks.iter().enumerate() {
        let log = sink.log.lock().unwrap().clone();
        if mutex {
            // one lock per writer: while a record of one thread is incomplete no other thread's
            // bytes may arrive in this sink
            let mut open: Option<(u8, Vec<u8>)> = None;
            for e in &log {
                if let SinkEv::Write { bytes, thread, .. } = e {
                    match &mut open {
                        Some((t, acc)) if *t != *thread => {
                            return Outcome::fail("records of two threads interleave in a sink behind the library's Mutex writer", format!("sink {si}: thread {thread} wrote {:?} while thread {t}'s record {:?} was incomplete; case = {}", String::from_utf8_lossy(bytes), String::from_utf8_lossy(acc), serde_json::to_string(case).unwrap_or_default()));
                        }
                        Some((_, acc)) => acc.extend_from_slice(bytes),
                        None => open = Some((*thread, bytes.clone())),
                    }
                    if open.as_ref().map_or(false, |(_, acc)| acc.ends_with(b"\n")) {
                        open = None;
                    }
                }
            }
        }
        for t in 0..nthreads {
            let mine: Vec<&SinkEv> = log.iter().filter(|e| matches!(e, SinkEv::Make { thread, .. } | SinkEv::Write { thread, .. } if *thread == t as u8)).collect();
            // expected records for this sink and thread, with multiplicity
            let mut exp: Vec<&Want> = vec![];
            for w in &wants[t] {
                let mut out = vec![];
                denote(&case.writer, w.level, if w.ti == 2 { 0 } else { w.ti }, &mut out);
                for _ in out.iter().filter(|s| **s as usize == si) {
                    exp.push(w);
                }
            }
            let makes: Vec<(u8, String, bool)> = mine.iter().filter_map(|e| if let SinkEv::Make { level, target, with_meta, .. } = e { Some((*level, target.clone(), *with_meta)) } else { None }).collect();
            // the bytes written through each writer handed out (one per record)
            let mut groups: Vec<(Vec<u8>, usize, usize)> = vec![];
            for e in &mine {
                match e {
                    SinkEv::Make { wid, .. } => groups.push((vec![], 0, *wid)),
                    SinkEv::Write { bytes, wid, .. } => {
                        if let Some(g) = groups.iter_mut().find(|g| g.2 == *wid) {
                            g.0.extend_from_slice(bytes);
                            g.1 += 1;
                        }
                    }
                }
            }
            // (without a byte cap every write call is a record of its own; with a tee the same sink
            // hands out several writers before the first write)
            let singles: Vec<&Vec<u8>> = mine.iter().filter_map(|e| if let SinkEv::Write { bytes, .. } = e { Some(bytes) } else { None }).collect();
            // behind the library's mutex no make_writer call is visible: the thread's bytes are
            // cut into lines instead
            let lines_owned: Vec<Vec<u8>> = if mutex {
                let all: Vec<u8> = singles.iter().flat_map(|b| b.iter().copied()).collect();
                all.split_inclusive(|b| *b == b'\n').map(|l| l.to_vec()).collect()
            } else {
                vec![]
            };
            let writes: Vec<&Vec<u8>> = if mutex { lines_owned.iter().collect() } else if sink.cap == 0 { singles } else { groups.iter().filter(|g| g.1 > 0).map(|g| &g.0).collect() };
            let fail = |sig: String, d: String| Outcome::fail(sig, format!("sink {si}, thread {t}: {d}; case = {}", serde_json::to_string(case).unwrap_or_default()));
            if !mutex && makes.len() != exp.len() {
                let sig = if makes.len() > exp.len() { "writer factory asked for a record the writer expression does not route to this sink (or asked twice)" } else { "record not routed to a sink the writer expression selects" };
                return fail(sig.into(), format!("{} make_writer calls, expected {} (levels/targets {:?})", makes.len(), exp.len(), exp.iter().map(|w| (w.level, w.ti)).collect::<Vec<_>>()));
            }
            for (m, w) in makes.iter().zip(exp.iter()).filter(|_| !mutex) {
                let tg = [TGT[0], TGT[1], "a::b"][w.ti];
                if !m.2 || m.0 != w.level || m.1 != tg {
                    return fail("make_writer_for not called with the event's own metadata".into(), format!("got (level {}, target {:?}, with metadata: {}), expected (level {}, {:?})", m.0, m.1, m.2, w.level, tg));
                }
            }
            if writes.len() != exp.len() {
                return fail(if writes.len() > exp.len() { "record written in more than one write call".into() } else { "record never written".into() }, format!("{} writes for {} records: {:?}", writes.len(), exp.len(), writes.iter().map(|b| String::from_utf8_lossy(b).to_string()).collect::<Vec<_>>()));
            }
            for (b, w) in writes.iter().zip(exp.iter()) {
                if let Err((sig, d)) = check_record(case, b, w) {
                    return fail(sig, d);
                }
            }
        }
    }
    let mut classes = vec![format!("{:?}", case.fmt)];
    if mutex {
        classes.push("library_mutex_writer".into());
    }
    if case.threads.iter().any(|p| p.panic_first) {
        classes.push("aborted_record_before".into());
    }
    if case.opts.span_events != 0 {
        classes.push("span_lifecycle_records".into());
    }
    let nontrivial = depth(&case.writer) >= 2 && case.threads.iter().any(|p| p.depth >= 2) && nthreads >= 2;
    Outcome::pass(nontrivial, classes)
}

fn w_strategy() -> BoxedStrategy<W> {
    let leaf = (0u8..3).prop_map(W::Sink);
    leaf.prop_recursive(3, 8, 2, |inner| {
        prop_oneof![
            2 => (inner.clone(), 1u8..=5).prop_map(|(a, l)| W::MaxLevel(Box::new(a), l)),
            2 => (inner.clone(), 1u8..=5).prop_map(|(a, l)| W::MinLevel(Box::new(a), l)),
            2 => (inner.clone(), 0u8..4).prop_map(|(a, m)| W::Filter(Box::new(a), m)),
            3 => (inner.clone(), inner.clone()).prop_map(|(a, b)| W::Tee(Box::new(a), Box::new(b))),
            2 => (inner.clone(), 1u8..=5, inner.clone()).prop_map(|(a, l, b)| W::OrElseMax(Box::new(a), l, Box::new(b))),
            1 => (inner.clone(), 0u8..4, inner.clone()).prop_map(|(a, m, b)| W::OrElseFilter(Box::new(a), m, Box::new(b))),
            1 => inner.prop_map(|a| W::Boxed(Box::new(a))),
        ]
    })
    .boxed()
}

struct C13;
impl Property for C13 {
    type Case = Case;
    fn id(&self) -> &'static str {
        "C13"
    }
    fn isolation(&self) -> Isolation {
        Isolation::Thread
    }
    fn cases(&self, tier: Tier) -> u32 {
        tier.pick(30_000, 1_000_000)
    }
    fn strategy(&self, tier: Tier) -> BoxedStrategy<Case> {
        let fmt_ = prop_oneof![Just(Fmt::Full), Just(Fmt::Compact), Just(Fmt::Pretty), Just(Fmt::Json)];
        let opts = (any::<bool>(), proptest::bool::weighted(0.8), any::<bool>(), any::<bool>(), any::<bool>(), any::<bool>(), proptest::bool::weighted(0.25), any::<bool>(), prop_oneof![3 => Just(0u8), 2 => 0u8..16])
            .prop_map(|(target, level, thread_ids, thread_names, file, line, ansi, time, span_events)| Opts { target, level, thread_ids, thread_names, file, line, ansi, time, span_events, timer_last: (span_events as u32 + level as u32 + file as u32) % 2 == 1 });
        // string values: mostly plain, some with characters Debug has to escape (tab, ESC, DEL,
        // quote, backslash) or non-ASCII ones; never a raw line break, as the property states
        let text = |max: usize| {
            let ch = prop_oneof![12 => proptest::char::range('a', 'z'), 3 => proptest::char::range('0', '9'), 2 => proptest::sample::select(vec!['\t', '\u{1b}', '\u{7f}', '"', '\\', '\u{e9}', '\u{1f980}', ' ', '='])];
            proptest::collection::vec(ch, 1..=max).prop_map(|v| v.into_iter().collect::<String>())
        };
        let ev = (1u8..=5, 0u8..2, any::<i64>(), text(8)).prop_map(|(level, target, k, s)| Ev { level, target, k, s });
        let prog = (0u8..4, any::<u64>(), text(6), any::<i64>(), any::<bool>(), proptest::bool::weighted(0.25), proptest::collection::vec(ev, 1..5), proptest::option::weighted(0.4, (0u8..8, 0u8..3, -5i64..100)), proptest::option::weighted(0.3, 100i64..200), (proptest::bool::weighted(0.2), any::<bool>())).prop_map(|(depth, rid, who, n, flag, panic_first, events, late, late_again, (reenter, panic_in_span))| Prog { depth, rid, who, n, flag, panic_first, events, late, late_again, reenter, panic_in_span });
        let maxt = tier.pick(4usize, 8usize);
        (fmt_, opts, w_strategy(), proptest::collection::vec(prog, 1..=maxt), proptest::option::weighted(0.08, (0u8..8, 0u8..8, 0i64..50)), proptest::option::weighted(0.15, any::<u8>()), proptest::bool::weighted(0.12))
            .prop_map(|(fmt, mut opts, writer, threads, shared, short, mutex)| {
                if fmt == Fmt::Json {
                    opts.ansi = false;
                }
                let shared = if threads.len() >= 2 { shared } else { None };
                // (behind the mutex a record only takes several write calls with short sinks)
                let short = if mutex && short.is_none() { Some(3) } else { short };
                Case { fmt, opts, writer, threads, shared, short, mutex }
            })
            .boxed()
    }
    fn run(&self, case: &Case) -> Outcome {
        run_case(case)
    }
    fn rule(&self) -> String {
        "case = formatter {full,compact,pretty,json} x options {target,level,thread ids/names,file,line,ansi,fixed timer on/off,span events NEW/ENTER/EXIT/CLOSE} x writer expression of depth <=3 over 3 recording sinks {Sink,with_max_level,with_min_level,with_filter(target),and,or_else,BoxMakeWriter} x 1-4 (thorough 1-8) concurrently started threads, each: 0-3 nested spans with fields, optional first event whose Debug panics (caught), 1-4 events (level x target x fields k,s) through the real macros, optionally a field of one of its spans recorded (once or twice) before a generated event; in 8 % of the multi-thread cases all threads work inside clones of one root span into which one thread records a value with a slow Debug impl while the others emit. in 15 % of the cases the sinks accept only 5-64 bytes per write call (different limits per sink, also under tees); in 12 % the sinks are plain writers behind the library's Mutex<W> MakeWriter (tee-free expressions, line-oriented formats): no other thread's bytes may arrive while a record is incomplete. non-trivial: writer depth >= 2, some thread nests >= 2 spans, >= 2 threads; distinct by case".into()
    }
    fn assumptions(&self) -> Vec<String> {
        vec![
            "field values contain no raw line breaks, as the property states (strings hold letters, digits, space, =, tab, ESC, DEL, quote, backslash, non-ASCII characters)".into(),
            "span context is demanded as each format documents it: full = name{fields} root->leaf; compact = the spans' fields root->leaf (no names in this snapshot); pretty = `in target::name with fields` leaf->root; json = `spans` array root->leaf".into(),
            "records of different threads are attributed by the thread that issued the write call; order is checked per thread only".into(),
        ]
    }
}

fn main() {
    vp_engine::main(C13)
}
