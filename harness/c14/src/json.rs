//! A strict RFC 8259 parser written for the check (independent of serde_json): objects keep
//! their key order and duplicate keys are an error; numbers are kept as their source text.

#[derive(Clone, Debug, PartialEq)]
pub enum J {
    Null,
    Bool(bool),
    Num(String),
    Str(String),
    Arr(Vec<J>),
    Obj(Vec<(String, J)>),
}
impl J {
    pub fn get(&self, k: &str) -> Option<&J> {
        match self {
            J::Obj(v) => v.iter().find(|(n, _)| n == k).map(|(_, v)| v),
            _ => None,
        }
    }
    pub fn as_str(&self) -> Option<&str> {
        match self {
            J::Str(s) => Some(s),
            _ => None,
        }
    }
}

pub fn parse(s: &str) -> Result<J, String> {
    let b: Vec<char> = s.chars().collect();
    let mut p = P { b: &b, i: 0 };
    p.ws();
    let v = p.value()?;
    p.ws();
    if p.i != b.len() {
        return Err(format!("trailing characters after the JSON value at offset {}", p.i));
    }
    Ok(v)
}

struct P<'a> {
    b: &'a [char],
    i: usize,
}
impl<'a> P<'a> {
    fn peek(&self) -> Option<char> {
        self.b.get(self.i).copied()
    }
    fn ws(&mut self) {
        while matches!(self.peek(), Some(' ') | Some('\t') | Some('\n') | Some('\r')) {
            self.i += 1;
        }
    }
    fn lit(&mut self, w: &str, v: J) -> Result<J, String> {
        for c in w.chars() {
            if self.peek() != Some(c) {
                return Err(format!("bad literal at offset {}", self.i));
            }
            self.i += 1;
        }
        Ok(v)
    }
    fn value(&mut self) -> Result<J, String> {
        match self.peek() {
            Some('{') => self.object(),
            Some('[') => self.array(),
            Some('"') => Ok(J::Str(self.string()?)),
            Some('t') => self.lit("true", J::Bool(true)),
            Some('f') => self.lit("false", J::Bool(false)),
            Some('n') => self.lit("null", J::Null),
            Some(c) if c == '-' || c.is_ascii_digit() => self.number(),
            other => Err(format!("unexpected {:?} at offset {}", other, self.i)),
        }
    }
    fn number(&mut self) -> Result<J, String> {
        let start = self.i;
        if self.peek() == Some('-') {
            self.i += 1;
        }
        match self.peek() {
            Some('0') => self.i += 1,
            Some(c) if c.is_ascii_digit() => {
                while matches!(self.peek(), Some(c) if c.is_ascii_digit()) {
                    self.i += 1;
                }
            }
            _ => return Err(format!("bad number at offset {}", self.i)),
        }
        if self.peek() == Some('.') {
            self.i += 1;
            if !matches!(self.peek(), Some(c) if c.is_ascii_digit()) {
                return Err(format!("bad fraction at offset {}", self.i));
            }
            while matches!(self.peek(), Some(c) if c.is_ascii_digit()) {
                self.i += 1;
            }
        }
        if matches!(self.peek(), Some('e') | Some('E')) {
            self.i += 1;
            if matches!(self.peek(), Some('+') | Some('-')) {
                self.i += 1;
            }
            if !matches!(self.peek(), Some(c) if c.is_ascii_digit()) {
                return Err(format!("bad exponent at offset {}", self.i));
            }
            while matches!(self.peek(), Some(c) if c.is_ascii_digit()) {
                self.i += 1;
            }
        }
        Ok(J::Num(self.b[start..self.i].iter().collect()))
    }
    fn hex4(&mut self) -> Result<u32, String> {
        let mut v = 0u32;
        for _ in 0..4 {
            let c = self.peek().ok_or("eof in \\u escape")?;
            v = v * 16 + c.to_digit(16).ok_or(format!("bad hex digit at offset {}", self.i))?;
            self.i += 1;
        }
        Ok(v)
    }
    fn string(&mut self) -> Result<String, String> {
        self.i += 1; // opening quote
        let mut out = String::new();
        loop {
            let c = self.peek().ok_or("eof inside string")?;
            self.i += 1;
            match c {
                '"' => return Ok(out),
                '\\' => {
                    let e = self.peek().ok_or("eof after backslash")?;
                    self.i += 1;
                    match e {
                        '"' => out.push('"'),
                        '\\' => out.push('\\'),
                        '/' => out.push('/'),
                        'b' => out.push('\u{8}'),
                        'f' => out.push('\u{c}'),
                        'n' => out.push('\n'),
                        'r' => out.push('\r'),
                        't' => out.push('\t'),
                        'u' => {
                            let hi = self.hex4()?;
                            if (0xD800..0xDC00).contains(&hi) {
                                if self.peek() != Some('\\') {
                                    return Err("lone high surrogate".into());
                                }
                                self.i += 1;
                                if self.peek() != Some('u') {
                                    return Err("lone high surrogate".into());
                                }
                                self.i += 1;
                                let lo = self.hex4()?;
                                if !(0xDC00..0xE000).contains(&lo) {
                                    return Err("bad low surrogate".into());
                                }
                                let cp = 0x10000 + ((hi - 0xD800) << 10) + (lo - 0xDC00);
                                out.push(char::from_u32(cp).ok_or("bad code point")?);
                            } else if (0xDC00..0xE000).contains(&hi) {
                                return Err("lone low surrogate".into());
                            } else {
                                out.push(char::from_u32(hi).ok_or("bad code point")?);
                            }
                        }
                        other => return Err(format!("invalid escape \\{other}")),
                    }
                }
                c if (c as u32) < 0x20 => return Err(format!("raw control character U+{:04X} inside a string", c as u32)),
                c => out.push(c),
            }
        }
    }
    fn array(&mut self) -> Result<J, String> {
        self.i += 1;
        let mut v = vec![];
        self.ws();
        if self.peek() == Some(']') {
            self.i += 1;
            return Ok(J::Arr(v));
        }
        loop {
            self.ws();
            v.push(self.value()?);
            self.ws();
            match self.peek() {
                Some(',') => self.i += 1,
                Some(']') => {
                    self.i += 1;
                    return Ok(J::Arr(v));
                }
                other => return Err(format!("expected , or ] but found {:?} at offset {}", other, self.i)),
            }
        }
    }
    fn object(&mut self) -> Result<J, String> {
        self.i += 1;
        let mut v: Vec<(String, J)> = vec![];
        self.ws();
        if self.peek() == Some('}') {
            self.i += 1;
            return Ok(J::Obj(v));
        }
        loop {
            self.ws();
            if self.peek() != Some('"') {
                return Err(format!("expected a key at offset {}", self.i));
            }
            let k = self.string()?;
            self.ws();
            if self.peek() != Some(':') {
                return Err(format!("expected : at offset {}", self.i));
            }
            self.i += 1;
            self.ws();
            let val = self.value()?;
            if v.iter().any(|(n, _)| *n == k) {
                return Err(format!("duplicate key {k:?}"));
            }
            v.push((k, val));
            self.ws();
            match self.peek() {
                Some(',') => self.i += 1,
                Some('}') => {
                    self.i += 1;
                    return Ok(J::Obj(v));
                }
                other => return Err(format!("expected , or }} but found {:?} at offset {}", other, self.i)),
            }
        }
    }
}
