//! C14 — JSON output is always one valid JSON object per line and faithful to the data.
//!
//! Events and spans are issued through `Dispatch` on static metadata whose field names, span
//! names and targets contain quotes, backslashes, control characters, separators and
//! non-ASCII text; values are generated (arbitrary Unicode strings, all integer widths and
//! extremes, floats incl. NaN/inf/-0.0, bools, bytes, errors, Display/Debug wrappers); spans get
//! 0-4 further `record` calls. Every record is parsed by the check's own strict RFC 8259
//! parser (duplicate keys are errors, numbers kept as text) and compared with the model.

mod json;

use json::J;
use proptest::prelude::*;
use serde::{Deserialize, Serialize};
use std::io;
use std::sync::{Arc, Mutex};
use tracing_core::callsite::Callsite;
use tracing_core::collect::Interest;
use tracing_core::field::{FieldSet, Value};
use tracing_core::metadata::Kind;
use tracing_core::{identify_callsite, span, Dispatch, Event, Level, Metadata};
use tracing_subscriber::fmt::{self, writer::MakeWriter};
use tracing_subscriber::registry::Registry;
use tracing_subscriber::subscribe::CollectExt;
use vp_engine::{kf, Isolation, Outcome, Property, Tier};

// ---- static universe with hostile names -------------------------------------------------------
struct Cs(usize);
impl Callsite for Cs {
    fn set_interest(&self, _: Interest) {}
    fn metadata(&self) -> &Metadata<'_> {
        &METAS[self.0]
    }
}
static CS: [Cs; 6] = [Cs(0), Cs(1), Cs(2), Cs(3), Cs(4), Cs(5)];
const SPAN_FIELDS_A: &[&str] = &["n", "we\"ird", "a.b", "type", "later", "uni\u{e9}\u{2028}x"];
const SPAN_FIELDS_B: &[&str] = &["back\\slash", "tab\tname", "s", "later"];
const SPAN_FIELDS_C: &[&str] = &["plain", "other"];
const EVENT_FIELDS_A: &[&str] = &["message", "v", "we\"ird", "a.b", "k2"];
// ("log.offset": a field of the application that merely starts like the names tracing-log uses)
const EVENT_FIELDS_B: &[&str] = &["v", "ctl\u{1}name", "w", "log.offset"];
static METAS: [Metadata<'static>; 6] = [
    Metadata::new("sp\"an", "tar\"get", Level::INFO, None, None, None, FieldSet::new(SPAN_FIELDS_A, identify_callsite!(&CS[0])), Kind::SPAN),
    Metadata::new("n\u{e4}me\u{2028}\\", "app::m\u{f6}d", Level::INFO, None, None, None, FieldSet::new(SPAN_FIELDS_B, identify_callsite!(&CS[1])), Kind::SPAN),
    Metadata::new("plain", "app", Level::INFO, None, None, None, FieldSet::new(SPAN_FIELDS_C, identify_callsite!(&CS[2])), Kind::SPAN),
    Metadata::new("event a", "tar\"get\n", Level::WARN, None, None, None, FieldSet::new(EVENT_FIELDS_A, identify_callsite!(&CS[3])), Kind::EVENT),
    Metadata::new("event b", "app", Level::ERROR, None, None, None, FieldSet::new(EVENT_FIELDS_B, identify_callsite!(&CS[4])), Kind::EVENT),
    Metadata::new("event c", "\u{1f980}::crab", Level::TRACE, None, None, None, FieldSet::new(EVENT_FIELDS_A, identify_callsite!(&CS[5])), Kind::EVENT),
];

// ---- values --------------------------------------------------------------------------------------
#[derive(Clone, Debug, Serialize, Deserialize, PartialEq)]
pub enum Val {
    I64(i64),
    U64(u64),
    I128(String),
    U128(String),
    /// bits, so that NaN payloads and -0.0 survive serialisation of the case
    F64(u64),
    Bool(bool),
    Str(String),
    Bytes(Vec<u8>),
    /// error with this Display text (and a source)
    Err(String),
    Display(String),
    Debug(String),
    /// an event field whose Debug impl emits an event of its own (through the same dispatcher)
    /// before printing the text's Debug form; as a span field it is a plain Debug value
    Emits(String),
}

static NESTED_CS: Cs2 = Cs2;
struct Cs2;
impl Callsite for Cs2 {
    fn set_interest(&self, _: Interest) {}
    fn metadata(&self) -> &Metadata<'_> {
        &NESTED_META
    }
}
static NESTED_META: Metadata<'static> = Metadata::new("nested event", "nested", Level::INFO, None, None, None, FieldSet::new(&["inner"], identify_callsite!(&NESTED_CS)), Kind::EVENT);
thread_local! {
    static NEST: std::cell::RefCell<Option<Dispatch>> = const { std::cell::RefCell::new(None) };
}
struct Emitter(String);
impl std::fmt::Debug for Emitter {
    fn fmt(&self, f: &mut std::fmt::Formatter<'_>) -> std::fmt::Result {
        let d = NEST.with(|n| n.borrow().clone());
        if let Some(d) = d {
            let fs = NESTED_META.fields();
            let fld = fs.field("inner").unwrap();
            let v = 7u64;
            d.event(&Event::new(&NESTED_META, &fs.value_set(&[(&fld, Some(&v as &dyn Value))])));
        }
        write!(f, "{:?}", self.0)
    }
}

#[derive(Debug)]
struct MyErr(String, Option<Box<MyErr>>);
impl std::fmt::Display for MyErr {
    fn fmt(&self, f: &mut std::fmt::Formatter<'_>) -> std::fmt::Result {
        f.write_str(&self.0)
    }
}
impl std::error::Error for MyErr {
    fn source(&self) -> Option<&(dyn std::error::Error + 'static)> {
        self.1.as_ref().map(|e| &**e as &(dyn std::error::Error + 'static))
    }
}

enum Owned {
    I64(i64),
    U64(u64),
    I128(i128),
    U128(u128),
    F64(f64),
    Bool(bool),
    Str(String),
    Bytes(Box<[u8]>),
    Err(Box<dyn std::error::Error + 'static>),
    Display(tracing_core::field::DisplayValue<String>),
    Debug(tracing_core::field::DebugValue<String>),
    Emits(tracing_core::field::DebugValue<Emitter>),
}
impl Owned {
    /// values of an event: `Emits` really emits
    fn of_event(v: &Val) -> Owned {
        match v {
            Val::Emits(s) => Owned::Emits(tracing_core::field::debug(Emitter(s.clone()))),
            other => Owned::of(other),
        }
    }
    fn of(v: &Val) -> Owned {
        match v {
            Val::I64(x) => Owned::I64(*x),
            Val::U64(x) => Owned::U64(*x),
            Val::I128(x) => Owned::I128(x.parse().unwrap_or(0)),
            Val::U128(x) => Owned::U128(x.parse().unwrap_or(0)),
            Val::F64(b) => Owned::F64(f64::from_bits(*b)),
            Val::Bool(b) => Owned::Bool(*b),
            Val::Str(s) => Owned::Str(s.clone()),
            Val::Bytes(b) => Owned::Bytes(b.clone().into_boxed_slice()),
            Val::Err(s) => Owned::Err(Box::new(MyErr(s.clone(), Some(Box::new(MyErr("the cause".into(), None)))))),
            Val::Display(s) => Owned::Display(tracing_core::field::display(s.clone())),
            Val::Debug(s) | Val::Emits(s) => Owned::Debug(tracing_core::field::debug(s.clone())),
        }
    }
    fn as_value(&self) -> &dyn Value {
        match self {
            Owned::I64(x) => x,
            Owned::U64(x) => x,
            Owned::I128(x) => x,
            Owned::U128(x) => x,
            Owned::F64(x) => x,
            Owned::Bool(x) => x,
            Owned::Str(x) => x,
            Owned::Bytes(x) => x,
            Owned::Err(x) => x,
            Owned::Display(x) => x,
            Owned::Debug(x) => x,
            Owned::Emits(x) => x,
        }
    }
}

fn hex_bytes(b: &[u8]) -> String {
    format!("[{}]", b.iter().map(|x| format!("{x:02x}")).collect::<Vec<_>>().join(" "))
}

/// does the JSON value `j` faithfully represent `v` under the type mapping?
fn faithful(v: &Val, j: &J) -> Result<(), String> {
    let bad = |want: &str| Err(format!("value {v:?} was written as {j:?}, expected {want}"));
    match v {
        Val::I64(x) => match j {
            J::Num(t) if *t == x.to_string() => Ok(()),
            _ => bad("the exact integer"),
        },
        Val::U64(x) => match j {
            J::Num(t) if *t == x.to_string() => Ok(()),
            _ => bad("the exact integer"),
        },
        Val::I128(x) | Val::U128(x) => match j {
            J::Str(t) | J::Num(t) if t == x => Ok(()),
            _ => bad("the exact 128-bit integer as text"),
        },
        Val::F64(bits) => {
            let f = f64::from_bits(*bits);
            if !f.is_finite() {
                return match j {
                    J::Null => Ok(()),
                    _ => bad("null for a non-finite float"),
                };
            }
            match j {
                J::Num(t) => match t.parse::<f64>() {
                    Ok(p) if p == f && p.is_sign_negative() == f.is_sign_negative() => Ok(()),
                    Ok(p) => Err(format!("float {f:?} (bits {bits:#x}) was written as {t}, which reads back as {p:?}")),
                    Err(_) => bad("a number"),
                },
                _ => bad("a number"),
            }
        }
        Val::Bool(b) => match j {
            J::Bool(x) if x == b => Ok(()),
            _ => bad("the boolean"),
        },
        Val::Str(s) | Val::Err(s) | Val::Display(s) => match j {
            J::Str(t) if t == s => Ok(()),
            _ => bad("the same string"),
        },
        Val::Debug(s) | Val::Emits(s) => match j {
            J::Str(t) if *t == format!("{s:?}") => Ok(()),
            _ => bad("the Debug text"),
        },
        Val::Bytes(b) => match j {
            J::Arr(a) if a.len() == b.len() && a.iter().zip(b.iter()).all(|(x, y)| *x == J::Num(y.to_string())) => Ok(()),
            J::Str(t) if *t == hex_bytes(b) => Ok(()),
            _ => bad("the bytes (array of numbers, or the hex Debug form)"),
        },
    }
}

// ---- case ---------------------------------------------------------------------------------------
#[derive(Clone, Debug, Serialize, Deserialize, PartialEq)]
pub struct SpanSpec {
    /// 0..3: which span metadata
    meta: u8,
    /// initial values by field index (None = Empty)
    init: Vec<Option<Val>>,
    /// later `record` calls: each a list of (field index, value)
    records: Vec<Vec<(u8, Val)>>,
    /// how many of the records happen before the span is entered
    before_enter: u8,
}
#[derive(Clone, Debug, Serialize, Deserialize, PartialEq)]
pub struct EventSpec {
    /// 0..3: which event metadata
    meta: u8,
    values: Vec<Option<Val>>,
    /// explicit parent: index into the span chain (events issued while the chain is entered)
    parent: Option<u8>,
    /// recorded into span `span` of the chain (fields by index) right BEFORE this event, i.e.
    /// between two events that both have the span in scope
    #[serde(default)]
    record_first: Option<(u8, Vec<(u8, Val)>)>,
}
#[derive(Clone, Debug, Serialize, Deserialize)]
pub struct Case {
    flatten: bool,
    current_span: bool,
    span_list: bool,
    target: bool,
    level: bool,
    thread: bool,
    spans: Vec<SpanSpec>,
    events: Vec<EventSpec>,
    /// with_thread_names as well
    #[serde(default)]
    pub names: bool,
    /// the whole case runs on a thread without a name
    #[serde(default)]
    pub unnamed: bool,
    /// after the chain is built: two threads record fields `.1` and `.2` of span `.0` at the same
    /// instant (values whose Debug impl is slow); every later output has to show both
    #[serde(default)]
    pub concurrent: Option<(u8, u8, u8, i64, i64)>,
    /// the JSON layer sits behind a per-layer filter that disables the spans of span callsite
    /// `.0` for it (a second, unfiltered layer keeps them alive): they must not appear in its
    /// output, the other spans in scope must
    #[serde(default)]
    pub hidden: Option<u8>,
}

#[derive(Clone)]
struct Out(Arc<Mutex<Vec<Vec<u8>>>>);
struct OutW(Arc<Mutex<Vec<Vec<u8>>>>);
impl io::Write for OutW {
    fn write(&mut self, b: &[u8]) -> io::Result<usize> {
        self.0.lock().unwrap().push(b.to_vec());
        Ok(b.len())
    }
    fn flush(&mut self) -> io::Result<()> {
        Ok(())
    }
}
impl<'a> MakeWriter<'a> for Out {
    type Writer = OutW;
    fn make_writer(&'a self) -> OutW {
        OutW(self.0.clone())
    }
}

fn with_values<R>(meta: &'static Metadata<'static>, vals: &[Option<Owned>], f: impl FnOnce(&tracing_core::field::ValueSet<'_>) -> R) -> R {
    let fs = meta.fields();
    let fields: Vec<tracing_core::Field> = fs.iter().collect();
    macro_rules! go {
        ($n:literal) => {{
            let arr: [(&tracing_core::Field, Option<&dyn Value>); $n] = std::array::from_fn(|i| (&fields[i], vals.get(i).and_then(|v| v.as_ref()).map(|o| o.as_value())));
            f(&fs.value_set(&arr))
        }};
    }
    match fields.len() {
        2 => go!(2),
        3 => go!(3),
        4 => go!(4),
        5 => go!(5),
        6 => go!(6),
        n => panic!("unsupported field count {n}"),
    }
}

fn run_case(case: &Case) -> Outcome {
    // the formatter's thread name / id keys depend on whether the emitting thread has a name
    let b = std::thread::Builder::new();
    let b = if case.unnamed { b } else { b.name("vp-c14".into()) };
    std::thread::scope(|sc| b.spawn_scoped(sc, || run_case_inner(case)).expect("thread").join()).unwrap_or_else(|p| Outcome::fail("panic while formatting", format!("{:?}", p.downcast_ref::<String>())))
}

struct SlowDbg(i64);
impl std::fmt::Debug for SlowDbg {
    fn fmt(&self, f: &mut std::fmt::Formatter<'_>) -> std::fmt::Result {
        std::thread::sleep(std::time::Duration::from_millis(2));
        write!(f, "slow{}", self.0)
    }
}

fn run_case_inner(case: &Case) -> Outcome {
    let f10_open = kf::load("C14").iter().any(|f| f.id == "F10" && f.status == "open");
    let out = Out(Default::default());
    let layer = fmt::subscriber().json().without_time().with_writer(out.clone()).flatten_event(case.flatten).with_current_span(case.current_span).with_span_list(case.span_list).with_target(case.target).with_level(case.level).with_thread_ids(case.thread).with_thread_names(case.names);
    let span_metas = [&METAS[0], &METAS[1], &METAS[2]];
    let hidden_meta: Option<&'static Metadata<'static>> = case.hidden.map(|k| span_metas[k as usize % 3]);
    struct Quiet;
    impl<C: tracing_core::Collect> tracing_subscriber::subscribe::Subscribe<C> for Quiet {}
    let d = match hidden_meta {
        None => Dispatch::new(Registry::default().with(layer)),
        Some(hm) => {
            use tracing_subscriber::subscribe::Subscribe as _;
            let f = tracing_subscriber::filter::filter_fn(move |m| m.callsite() != hm.callsite());
            Dispatch::new(Registry::default().with(layer.with_filter(f)).with(Quiet))
        }
    };
    let _g = tracing_core::dispatch::set_default(&d);
    // nested emission only without the per-layer filter (a nested Dispatch::event between the
    // outer enabled() and event() calls would disturb the per-layer filter state: F3's ground)
    struct NestGuard;
    impl Drop for NestGuard {
        fn drop(&mut self) {
            NEST.with(|n| *n.borrow_mut() = None);
        }
    }
    let nesting = hidden_meta.is_none();
    if nesting {
        NEST.with(|n| *n.borrow_mut() = Some(d.clone()));
    }
    let _ng = NestGuard;
    let event_metas = [&METAS[3], &METAS[4], &METAS[5]];

    // model of each span: name + last written value per field
    struct MSpan {
        id: span::Id,
        meta: &'static Metadata<'static>,
        vals: Vec<Option<Val>>,
        /// disabled for the JSON layer by its per-layer filter
        hidden: bool,
    }
    let mut chain: Vec<MSpan> = vec![];
    let mut classes: Vec<String> = vec![];
    let mut excluded = 0u32;
    let (mut escapes, mut multi_record) = (false, false);
    for sp in case.spans.iter().take(3) {
        let meta = span_metas[sp.meta as usize % 3];
        let nf = meta.fields().len();
        let init: Vec<Option<Val>> = (0..nf).map(|i| sp.init.get(i).cloned().flatten()).collect();
        let owned: Vec<Option<Owned>> = init.iter().map(|v| v.as_ref().map(Owned::of)).collect();
        if hidden_meta.is_some() {
            // what the macros do first: ask the stack (this is what tells a per-layer filter
            // about the callsite)
            let _ = d.enabled(meta);
        }
        let id = with_values(meta, &owned, |vs| d.new_span(&span::Attributes::new(meta, vs)));
        let is_hidden = hidden_meta.map(|h| h.callsite() == meta.callsite()).unwrap_or(false);
        let mut ms = MSpan { id, meta, vals: init, hidden: is_hidden };
        if is_hidden {
            classes.push("span_hidden_from_the_json_layer".into());
        }
        let names_need_escape = meta.fields().iter().any(|f| f.name().chars().any(|c| c == '"' || c == '\\' || (c as u32) < 0x20));
        let mut apply = |ms: &mut MSpan, rec: &Vec<(u8, Val)>, excluded: &mut u32| {
            if names_need_escape && f10_open {
                *excluded += 1;
                return;
            }
            let mut vals: Vec<Option<Val>> = vec![None; nf];
            for (fi, v) in rec {
                vals[*fi as usize % nf] = Some(v.clone());
            }
            let owned: Vec<Option<Owned>> = vals.iter().map(|v| v.as_ref().map(Owned::of)).collect();
            with_values(ms.meta, &owned, |vs| d.record(&ms.id, &span::Record::new(vs)));
            for (i, v) in vals.into_iter().enumerate() {
                if v.is_some() && !ms.hidden {
                    ms.vals[i] = v;
                }
            }
        };
        let nb = (sp.before_enter as usize).min(sp.records.len());
        for rec in &sp.records[..nb] {
            apply(&mut ms, rec, &mut excluded);
        }
        d.enter(&ms.id);
        for rec in &sp.records[nb..] {
            apply(&mut ms, rec, &mut excluded);
        }
        if sp.records.len() >= 2 {
            multi_record = true;
        }
        chain.push(ms);
    }

    let fail = |sig: &str, detail: String, line: &str| Outcome::fail(sig.to_string(), format!("{detail}; line = {line:?}; case = {}", serde_json::to_string(case).unwrap_or_default()));

    if let (Some((si, fa, fb, va, vb)), false, None) = (case.concurrent, chain.is_empty(), hidden_meta) {
        let k = si as usize % chain.len();
        let nf = chain[k].meta.fields().len();
        let (fa, fb) = (fa as usize % nf, fb as usize % nf);
        if fa != fb {
            let (id, meta) = (chain[k].id.clone(), chain[k].meta);
            let barrier = std::sync::Barrier::new(2);
            std::thread::scope(|sc| {
                for (fi, v) in [(fa, va), (fb, vb)] {
                    let (d, id, barrier) = (&d, &id, &barrier);
                    sc.spawn(move || {
                        let field = meta.fields().iter().nth(fi).unwrap();
                        let val = tracing_core::field::debug(SlowDbg(v));
                        barrier.wait();
                        d.record(id, &span::Record::new(&meta.fields().value_set(&[(&field, Some(&val as &dyn Value))])));
                    });
                }
            });
            chain[k].vals[fa] = Some(Val::Display(format!("slow{va}")));
            chain[k].vals[fb] = Some(Val::Display(format!("slow{vb}")));
            classes.push("two_threads_record_into_one_span".into());
        }
    }

    for ev in &case.events {
        if let (Some((si, rec)), false) = (&ev.record_first, chain.is_empty()) {
            let k = *si as usize % chain.len();
            let ms = &mut chain[k];
            let nf = ms.meta.fields().len();
            let names_need_escape = ms.meta.fields().iter().any(|f| f.name().chars().any(|c| c == '"' || c == '\\' || (c as u32) < 0x20));
            if names_need_escape && f10_open {
                excluded += 1;
            } else {
                let mut vals: Vec<Option<Val>> = vec![None; nf];
                for (fi, v) in rec {
                    vals[*fi as usize % nf] = Some(v.clone());
                }
                let owned: Vec<Option<Owned>> = vals.iter().map(|v| v.as_ref().map(Owned::of)).collect();
                with_values(ms.meta, &owned, |vs| d.record(&ms.id, &span::Record::new(vs)));
                for (i, v) in vals.into_iter().enumerate() {
                    if v.is_some() && !ms.hidden {
                        ms.vals[i] = v;
                    }
                }
                classes.push("record_between_two_events".into());
                multi_record = true;
            }
        }
        let meta = event_metas[ev.meta as usize % 3];
        let nf = meta.fields().len();
        let vals: Vec<Option<Val>> = (0..nf).map(|i| ev.values.get(i).cloned().flatten()).collect();
        let owned: Vec<Option<Owned>> = vals.iter().map(|v| v.as_ref().map(Owned::of_event)).collect();
        let n_nested = if nesting { vals.iter().flatten().filter(|v| matches!(v, Val::Emits(_))).count() } else { 0 };
        out.0.lock().unwrap().clear();
        let ev_parent = if hidden_meta.is_some() { None } else { ev.parent };
        let parent = ev_parent.and_then(|p| chain.get(p as usize % chain.len().max(1)));
        if hidden_meta.is_some() {
            let _ = d.enabled(meta);
        }
        with_values(meta, &owned, |vs| match parent {
            Some(p) => d.event(&Event::new_child_of(p.id.clone(), meta, vs)),
            None => d.event(&Event::new(meta, vs)),
        });
        let mut writes = out.0.lock().unwrap().clone();
        if writes.len() != 1 + n_nested {
            return fail("not exactly one write per event", format!("{} writes, {} events (one outer, the others emitted by field values while it was formatted)", writes.len(), 1 + n_nested), "");
        }
        // the records of the nested events come first, each a line of its own
        for w in writes.drain(..n_nested) {
            let l = String::from_utf8_lossy(&w).to_string();
            let ok = l.ends_with('\n') && l.matches('\n').count() == 1 && matches!(json::parse(l.trim_end_matches('\n')), Ok(j @ J::Obj(_)) if (if case.flatten { j.get("inner").cloned() } else { j.get("fields").and_then(|f| f.get("inner").cloned()) }) == Some(J::Num("7".into())));
            if !ok {
                return fail("record of an event emitted from inside a field value is not one valid line", String::new(), &l);
            }
            classes.push("event_emitted_while_another_is_formatted".into());
        }
        let line = match String::from_utf8(writes[0].clone()) {
            Ok(l) => l,
            Err(_) => return fail("output is not UTF-8", String::new(), ""),
        };
        if !line.ends_with('\n') || line.matches('\n').count() != 1 {
            return fail("record is not exactly one newline-terminated line", format!("{} newlines", line.matches('\n').count()), &line);
        }
        let j = match json::parse(line.trim_end_matches('\n')) {
            Ok(j @ J::Obj(_)) => j,
            Ok(_) => return fail("record is not a JSON object", String::new(), &line),
            Err(e) => return fail("record is not valid JSON (or has duplicate keys)", e, &line),
        };
        // event fields
        let container = if case.flatten { Some(&j) } else { j.get("fields") };
        let Some(container) = container else { return fail("event fields object missing", String::new(), &line) };
        for (i, f) in meta.fields().iter().enumerate() {
            if let Some(v) = &vals[i] {
                if f.name().chars().any(|c| c == '"' || c == '\\' || (c as u32) < 0x20 || c == '\u{2028}') || matches!(v, Val::Str(s) | Val::Display(s) | Val::Debug(s) | Val::Emits(s) | Val::Err(s) if s.chars().any(|c| c == '"' || c == '\\' || (c as u32) < 0x20)) {
                    escapes = true;
                }
                // reserved keys of the formatter collide only in flatten mode
                if case.flatten && ["level", "target", "span", "spans", "threadName", "threadId", "timestamp", "filename", "line_number"].contains(&f.name()) {
                    continue;
                }
                match container.get(f.name()) {
                    None => return fail("event field missing from the record", format!("field {:?}", f.name()), &line),
                    Some(jv) => {
                        if let Err(e) = faithful(v, jv) {
                            return fail("event field value not faithful", format!("field {:?}: {e}", f.name()), &line);
                        }
                    }
                }
            }
        }
        if case.level && j.get("level").and_then(|l| l.as_str()) != Some(["", "ERROR", "WARN", "INFO", "DEBUG", "TRACE"][vp_rec::rank(meta.level()) as usize]) {
            return fail("level missing or wrong", format!("{:?}", j.get("level")), &line);
        }
        if case.target && j.get("target").and_then(|l| l.as_str()) != Some(meta.target()) {
            return fail("target missing or wrong", format!("{:?}", j.get("target")), &line);
        }
        // spans
        let check_span = |js: &J, ms: &MSpan| -> Result<(), (String, String)> {
            if js.get("name").and_then(|n| n.as_str()) != Some(ms.meta.name()) {
                return Err(("span name missing or wrong".into(), format!("{:?} vs {:?}", js.get("name"), ms.meta.name())));
            }
            for (i, f) in ms.meta.fields().iter().enumerate() {
                if f.name() == "name" {
                    continue;
                }
                if let Some(v) = &ms.vals[i] {
                    match js.get(f.name()) {
                        None => return Err(("span field missing from the record".into(), format!("span {:?} field {:?} (value {v:?})", ms.meta.name(), f.name()))),
                        Some(jv) => {
                            if let Err(e) = faithful(v, jv) {
                                return Err(("span field value not faithful".into(), format!("span {:?} field {:?}: {e}", ms.meta.name(), f.name())));
                            }
                        }
                    }
                }
            }
            Ok(())
        };
        // `span` is the event's parent (explicit parent, else the current span); `spans` is
        // documented as "all currently entered spans", root to leaf, whatever the parent is
        let scope_leaf: Option<usize> = match ev_parent {
            Some(p) if !chain.is_empty() => Some(p as usize % chain.len()),
            // the innermost entered span this layer can see
            _ => (0..chain.len()).rev().find(|k| !chain[*k].hidden),
        };
        let list_leaf = chain.len().checked_sub(1);
        if case.current_span {
            match (scope_leaf, j.get("span")) {
                (Some(l), Some(js)) => {
                    if let Err((sig, d)) = check_span(js, &chain[l]) {
                        return fail(&sig, d, &line);
                    }
                }
                (Some(_), None) => return fail("current span missing from the record", String::new(), &line),
                (None, Some(_)) => return fail("record names a span although none is in scope", String::new(), &line),
                (None, None) => {}
            }
        }
        if case.span_list {
            if let Some(l) = list_leaf {
                let want: Vec<&MSpan> = chain[..=l].iter().filter(|m| !m.hidden).collect();
                match j.get("spans") {
                    None if want.is_empty() => {}
                    Some(J::Arr(a)) => {
                        let names: Vec<Option<&str>> = a.iter().map(|x| x.get("name").and_then(|n| n.as_str())).collect();
                        let wn: Vec<Option<&str>> = want.iter().map(|m| Some(m.meta.name())).collect();
                        if names != wn {
                            let sig = "span list is not the entered spans root to leaf";
                            return fail(sig, format!("spans {names:?}, expected {wn:?}"), &line);
                        }
                        for (js, ms) in a.iter().zip(want.iter()) {
                            if let Err((sig, d)) = check_span(js, ms) {
                                return fail(&sig, d, &line);
                            }
                        }
                    }
                    _ => return fail("span list missing from the record", String::new(), &line),
                }
            }
        }
        if ev_parent.is_some() && !chain.is_empty() {
            classes.push("event_with_explicit_parent".into());
        }
    }
    while let Some(ms) = chain.pop() {
        d.exit(&ms.id);
        d.try_close(ms.id);
    }
    if escapes {
        classes.push("needs_escaping".into());
    }
    if multi_record {
        classes.push("span_recorded_twice_or_more".into());
    }
    let nested = case.spans.len() >= 2;
    classes.sort();
    classes.dedup();
    let mut o = Outcome::pass(escapes && multi_record && nested, classes);
    o.excluded_known = excluded;
    o
}

fn string_strategy() -> BoxedStrategy<String> {
    let nasty = proptest::sample::select(vec!['"', '\\', '\n', '\r', '\t', '\u{0}', '\u{1}', '\u{1f}', '\u{7f}', '\u{80}', '\u{9f}', '\u{2028}', '\u{2029}', '\u{feff}', '\u{fffd}', '\u{10ffff}', '\u{1f980}', '/', '\u{e9}', '}', '{', ',', ':']);
    let ch = prop_oneof![3 => nasty, 3 => proptest::char::range('a', 'z'), 2 => any::<char>()];
    let short = proptest::collection::vec(ch, 0..10).prop_map(|v| v.into_iter().collect::<String>());
    // long values (beyond any plausible internal buffer size) of multi-byte characters behind an
    // ASCII prefix of 0-3 bytes, so that characters straddle every power-of-two byte offset
    let long = (0usize..4, proptest::sample::select(vec!['\u{e9}', '\u{20ac}', '\u{1f980}', '\u{2028}', '"', 'x']), 100usize..1500).prop_map(|(pad, c, n)| long_text(pad, c, n));
    prop_oneof![12 => short, 1 => long].boxed()
}
fn long_text(pad: usize, c: char, n: usize) -> String {
    let mut s = "abc"[..pad.min(3)].to_string();
    s.extend(std::iter::repeat(c).take(n));
    s
}
fn val_strategy() -> BoxedStrategy<Val> {
    let f = prop_oneof![
        4 => any::<f64>().prop_map(|f| f.to_bits()),
        1 => any::<u64>(),
        2 => proptest::sample::select(vec![f64::NAN.to_bits(), f64::INFINITY.to_bits(), f64::NEG_INFINITY.to_bits(), (-0.0f64).to_bits(), 0.1f64.to_bits(), f64::MAX.to_bits(), f64::MIN_POSITIVE.to_bits(), 5e-324f64.to_bits(), 1e23f64.to_bits(), 9007199254740993f64.to_bits(), 0.30000000000000004f64.to_bits(), 2.2250738585072011e-308f64.to_bits(), 1.7976931348623157e308f64.to_bits(), 123456789012345680000.0f64.to_bits()]),
    ];
    prop_oneof![
        2 => prop_oneof![any::<i64>(), Just(i64::MIN), Just(i64::MAX), Just(0), Just(-1)].prop_map(Val::I64),
        // small values: replacing one by another keeps the stored text the same length
        3 => (0i64..10).prop_map(Val::I64),
        2 => prop_oneof![any::<u64>(), Just(u64::MAX), Just(i64::MAX as u64 + 1)].prop_map(Val::U64),
        1 => prop_oneof![any::<i128>(), Just(i128::MIN), Just(i128::MAX)].prop_map(|x| Val::I128(x.to_string())),
        1 => prop_oneof![any::<u128>(), Just(u128::MAX)].prop_map(|x| Val::U128(x.to_string())),
        3 => f.prop_map(Val::F64),
        1 => any::<bool>().prop_map(Val::Bool),
        4 => string_strategy().prop_map(Val::Str),
        1 => proptest::collection::vec(any::<u8>(), 0..6).prop_map(Val::Bytes),
        1 => string_strategy().prop_map(Val::Err),
        1 => string_strategy().prop_map(Val::Display),
        1 => string_strategy().prop_map(Val::Debug),
        1 => string_strategy().prop_map(Val::Emits),
    ]
    .boxed()
}

// ---------------------------------------------------------------------------------------------
// coverage-guided stage (thorough tier): bytes -> case (hand-decoded through `arbitrary`)

fn fuzz_val(u: &mut arbitrary::Unstructured<'_>) -> Val {
    let text = |u: &mut arbitrary::Unstructured<'_>| -> String {
        let n = u.int_in_range(0u8..=16).unwrap_or(0) as usize;
        String::from_utf8_lossy(u.bytes(n.min(u.len())).unwrap_or(&[])).into_owned()
    };
    match u.int_in_range(0u8..=12).unwrap_or(0) {
        12 => Val::Emits(text(u)),
        11 => {
            let pad = u.int_in_range(0u8..=3).unwrap_or(0) as usize;
            let c = ['\u{e9}', '\u{20ac}', '\u{1f980}', '"'][u.int_in_range(0u8..=3).unwrap_or(0) as usize];
            let n = u.int_in_range(100u16..=1500).unwrap_or(100) as usize;
            Val::Str(long_text(pad, c, n))
        }
        0 => Val::I64(u.arbitrary().unwrap_or(0)),
        1 => Val::U64(u.arbitrary().unwrap_or(0)),
        2 => Val::I128(u.arbitrary::<i128>().unwrap_or(0).to_string()),
        3 => Val::U128(u.arbitrary::<u128>().unwrap_or(0).to_string()),
        4 => Val::F64(u.arbitrary().unwrap_or(0)),
        5 => Val::Bool(u.arbitrary().unwrap_or(false)),
        6 => Val::Str(text(u)),
        7 => {
            let n = u.int_in_range(0u8..=8).unwrap_or(0) as usize;
            Val::Bytes(u.bytes(n.min(u.len())).unwrap_or(&[]).to_vec())
        }
        8 => Val::Err(text(u)),
        9 => Val::Display(text(u)),
        _ => Val::Debug(text(u)),
    }
}
pub fn fuzz_case(data: &[u8]) -> Case {
    let mut u = arbitrary::Unstructured::new(data);
    let flags: u8 = u.arbitrary().unwrap_or(0);
    let ov = |u: &mut arbitrary::Unstructured<'_>| if u.ratio(2u8, 3u8).unwrap_or(false) { Some(fuzz_val(u)) } else { None };
    let nspans = u.int_in_range(0u8..=2).unwrap_or(0);
    let mut spans = Vec::new();
    for _ in 0..nspans {
        let meta = u.int_in_range(0u8..=2).unwrap_or(0);
        let init = (0..6).map(|_| ov(&mut u)).collect();
        let nrec = u.int_in_range(0u8..=3).unwrap_or(0);
        let records = (0..nrec).map(|_| (0..u.int_in_range(1u8..=2).unwrap_or(1)).map(|_| (u.int_in_range(0u8..=5).unwrap_or(0), fuzz_val(&mut u))).collect()).collect();
        spans.push(SpanSpec { meta, init, records, before_enter: u.int_in_range(0u8..=2).unwrap_or(0) });
    }
    let nev = u.int_in_range(1u8..=3).unwrap_or(1);
    let mut events = Vec::new();
    for _ in 0..nev {
        let meta = u.int_in_range(0u8..=2).unwrap_or(0);
        let values = (0..5).map(|_| ov(&mut u)).collect();
        let parent = if u.ratio(1u8, 5u8).unwrap_or(false) { Some(u.int_in_range(0u8..=2).unwrap_or(0)) } else { None };
        let record_first = if u.ratio(1u8, 3u8).unwrap_or(false) { Some((u.int_in_range(0u8..=2).unwrap_or(0), (0..u.int_in_range(1u8..=2).unwrap_or(1)).map(|_| (u.int_in_range(0u8..=5).unwrap_or(0), fuzz_val(&mut u))).collect())) } else { None };
        events.push(EventSpec { meta, values, parent, record_first });
    }
    Case { flatten: flags & 1 != 0, current_span: flags & 2 != 0, span_list: flags & 4 != 0, target: flags & 8 != 0, level: flags & 16 != 0, thread: flags & 32 != 0, spans, events, names: flags & 64 != 0, unnamed: flags & 128 != 0, concurrent: None, hidden: None }
}
pub fn fuzz_one(data: &[u8]) -> Outcome {
    run_case(&fuzz_case(data))
}

struct C14;
impl Property for C14 {
    type Case = Case;
    fn id(&self) -> &'static str {
        "C14"
    }
    fn isolation(&self) -> Isolation {
        Isolation::Thread
    }
    fn cases(&self, tier: Tier) -> u32 {
        tier.pick(100_000, 1_500_000)
    }
    fn strategy(&self, _tier: Tier) -> BoxedStrategy<Case> {
        let ov = || proptest::option::weighted(0.7, val_strategy());
        let span = (0u8..3, proptest::collection::vec(ov(), 6), proptest::collection::vec(proptest::collection::vec((0u8..6, val_strategy()), 1..3), 0..5), 0u8..3).prop_map(|(meta, init, records, before_enter)| SpanSpec { meta, init, records, before_enter });
        let ev = (0u8..3, proptest::collection::vec(ov(), 5), proptest::option::weighted(0.2, 0u8..3), proptest::option::weighted(0.4, (0u8..3, proptest::collection::vec((0u8..6, val_strategy()), 1..3))))
            .prop_map(|(meta, values, parent, record_first)| EventSpec { meta, values, parent, record_first });
        let extra = (proptest::bool::weighted(0.25), proptest::bool::weighted(0.4), proptest::option::weighted(0.04, (0u8..3, 0u8..6, 0u8..6, -9i64..100, -9i64..100)), proptest::option::weighted(0.15, 0u8..3));
        (any::<bool>(), proptest::bool::weighted(0.8), proptest::bool::weighted(0.8), any::<bool>(), any::<bool>(), proptest::bool::weighted(0.25), proptest::collection::vec(span, 0..4), proptest::collection::vec(ev, 1..5), extra)
            .prop_map(|(flatten, current_span, span_list, target, level, thread, spans, events, (names, unnamed, concurrent, hidden))| Case { flatten, current_span, span_list, target, level, thread, spans, events, names, unnamed, concurrent, hidden })
            .boxed()
    }
    fn run(&self, case: &Case) -> Outcome {
        run_case(case)
    }
    fn rule(&self) -> String {
        "case = JSON formatter options {flatten_event,current_span,span_list,target,level,thread ids,thread names} on a named or an unnamed thread x a chain of 0-3 spans (3 span callsites whose names, targets and field names contain quotes, backslashes, tabs, U+2028, non-ASCII, dots, keywords) with generated initial values and 0-4 later record calls (before / after entering) x 1-4 events, each optionally preceded by another record into a span of the chain (so that records happen between two outputs that show the span); in 4 % of the cases two threads record two fields of one span at the same instant with values whose Debug impl is slow; in 15 % of the cases the JSON layer sits behind a per-layer filter that hides the spans of one span callsite from it (3 event callsites incl. control characters in a field name and a newline in the target; optional explicit parent). Values: i64/u64/i128/u128 incl. extremes, f64 incl. NaN, +-inf, -0.0, subnormals and round-trip-critical values, bool, strings over a hostile alphabet + arbitrary chars, bytes, errors, Display/Debug wrappers. non-trivial: something needs escaping, some span is recorded into >= 2 more times, and >= 2 spans are nested; distinct by case".into()
    }
    fn assumptions(&self) -> Vec<String> {
        vec![
            "the type mapping accepted: integers as exact JSON numbers; finite floats as numbers that read back (correctly rounded) to the same f64 incl. the sign of zero; non-finite floats as null; 128-bit integers, errors, Display/Debug values as strings of their text; bytes as an array of numbers or as the hex Debug form".into(),
            "field names colliding with the formatter's reserved keys are skipped (flatten mode), as the property excludes them".into(),
            "open finding F10: later record calls on spans that have a field name needing JSON escapes are not executed (excluded_known); the committed reproducer runs them".into(),
        ]
    }
}

fn main() {
    // `--decode-fuzz FILE`: print the case a coverage-guided-stage input decodes to (used by
    // ./check to turn a crash input into an ordinary replay file)
    let a: Vec<String> = std::env::args().collect();
    if a.len() == 3 && a[1] == "--decode-fuzz" {
        let data = std::fs::read(&a[2]).expect("readable input");
        println!("{}", serde_json::to_string(&fuzz_case(&data)).unwrap());
        return;
    }

    // parser self-test
    assert!(json::parse(r#"{"a":1,"a":2}"#).is_err());
    assert!(json::parse("{\"a\":\"\u{1}\"}").is_err());
    assert_eq!(json::parse(r#"{"a":[1.5e3,true,null,"xé🦀"]}"#).unwrap().get("a").unwrap(), &J::Arr(vec![J::Num("1.5e3".into()), J::Bool(true), J::Null, J::Str("x\u{e9}\u{1f980}".into())]));
    vp_engine::main(C14)
}
