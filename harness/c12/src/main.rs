//! C12 — after `reload` / `modify` on a reload handle has returned, every emission on any
//! thread, from any callsite (also ones cached as always / never before), is judged by the
//! new value and the new max level; a racing emission is judged by the old or by the new
//! value; a handle whose collector is gone reports an error.
//!
//! One history per fresh child process (macro callsites with their caches, global MAX_LEVEL).
//! Oracle: reference filter semantics (vp-sub) of the value that is current by the model.

use proptest::prelude::*;
use serde::{Deserialize, Serialize};
use std::sync::mpsc::{channel, Receiver, Sender};
use std::sync::{Arc, Mutex};
use tracing::Level;
use tracing_core::dispatch::{self, DefaultGuard};
use tracing_core::{Dispatch, LevelFilter};
use tracing_subscriber::registry::Registry;
use tracing_subscriber::reload;
use tracing_subscriber::subscribe::{CollectExt, Subscribe};
use vp_engine::{Isolation, Outcome, Property, Tier};
use vp_rec::Stepper;
use vp_sub::*;

#[derive(Clone, Debug, Serialize, Deserialize, PartialEq)]
enum Val {
    Level(u8),
    Targets(Tab),
    Env(Tab),
    /// `None`: no filter at all
    Absent,
}
impl Val {
    fn accepts(&self, level: u8, target: &str) -> bool {
        match self {
            Val::Level(r) => level <= *r,
            Val::Targets(t) | Val::Env(t) => tab_accepts(t, level, target),
            Val::Absent => true,
        }
    }
    fn fexpr(&self) -> Option<FExpr> {
        match self {
            Val::Level(r) => Some(FExpr::Level(*r)),
            Val::Targets(t) => Some(FExpr::Targets(t.clone())),
            Val::Env(t) => Some(FExpr::Env(t.clone())),
            Val::Absent => None,
        }
    }
    fn gfilter(&self) -> Option<GFilter> {
        match self {
            Val::Level(r) => Some(GFilter::Level(*r)),
            Val::Targets(t) => Some(GFilter::Targets(t.clone())),
            Val::Env(t) => Some(GFilter::Env(t.clone())),
            Val::Absent => None,
        }
    }
    /// the most verbose level the value can accept for some target in the universe
    fn max_accepted(&self) -> u8 {
        (1..=5u8).rev().find(|l| TARGETS.iter().any(|t| self.accepts(*l, t))).unwrap_or(0)
    }
}
#[derive(Clone, Copy, Debug, Serialize, Deserialize, PartialEq)]
enum Kind {
    /// `registry().with(reload(Option<global filter layer>)).with(leaf)`
    GlobalInner,
    /// `registry().with(leaf).with(reload(Option<global filter layer>))`
    GlobalOuter,
    /// `registry().with(leaf1.with_filter(reload(Option<filter>))).with(leaf2)`
    PerLayer,
}
#[derive(Clone, Debug, Serialize, Deserialize, PartialEq)]
enum Op {
    Emit { t: u8, cs: u8 },
    Reload { t: u8, val: Val },
    /// `modify(|v| *v = val)`
    Modify { t: u8, val: Val },
    /// reload with an emission of `cs` on a helper thread between unlock and cache rebuild
    ReloadRacing { t: u8, val: Val, cs: u8 },
    /// thread `t` first reloads through a handle whose collector is gone (must fail with
    /// is_dropped), then the history goes on
    DeadHandleReload { t: u8 },
    /// the helper thread hits callsite `cs` for the first time; while its registration is inside a
    /// layer's register_callsite, thread `t` reloads
    ReloadWhileRegistering { t: u8, val: Val, cs: u8 },
    /// modify whose closure keeps the write lock while a helper thread emits `cs`
    ModifyHeld { t: u8, val: Val, cs: u8 },
    /// reload to `val`; while its cache rebuild is walking the callsites (at the k-th
    /// register_callsite call) a helper thread starts a second reload to `val2`
    ReloadDuringRebuild { t: u8, val: Val, val2: Val, k: u8 },
    /// drop every handle to the collector, then reload must fail with is_dropped()
    DropCollectorThenReload { val: Val },
}
#[derive(Clone, Debug, Serialize, Deserialize)]
struct Case {
    kind: Kind,
    initial: Val,
    ops: Vec<Op>,
    /// a second, unrelated collector (accepts everything, cached `always`, no hint) is alive for
    /// the whole history; it is nobody's default
    #[serde(default)]
    bystander: bool,
}

macro_rules! sites {
    ($($idx:literal, $lvl:ident, $tgt:literal;)*) => {
        fn emit_event(i: u8) {
            match i { $($idx => tracing::event!(target: $tgt, Level::$lvl, cs = $idx as u64),)* _ => {} }
        }
    };
}
sites! {
    0, ERROR, "a"; 1, ERROR, "a::b"; 2, ERROR, "c";
    3, WARN, "a"; 4, WARN, "a::b"; 5, WARN, "c";
    6, INFO, "a"; 7, INFO, "a::b"; 8, INFO, "c";
    9, DEBUG, "a"; 10, DEBUG, "a::b"; 11, DEBUG, "c";
    12, TRACE, "a"; 13, TRACE, "a::b"; 14, TRACE, "c";
}
fn cs_level(cs: u8) -> u8 {
    cs / 3 + 1
}
fn cs_target(cs: u8) -> &'static str {
    TARGETS[(cs % 3) as usize]
}

#[derive(Default)]
struct TState {
    default: Option<DefaultGuard>,
}

enum H {
    Global(reload::Handle<Option<BS>>),
    Filter(reload::Handle<Option<BF>>),
}
impl H {
    fn reload(&self, v: &Val, modify: bool, held: Option<&(dyn Fn() + Sync)>) -> Result<(), reload::Error> {
        match self {
            H::Global(h) => {
                let new = v.gfilter().map(|g| g.build());
                if modify || held.is_some() {
                    h.modify(|x| {
                        if let Some(f) = held {
                            f()
                        }
                        *x = new
                    })
                } else {
                    h.reload(new)
                }
            }
            H::Filter(h) => {
                let new = v.fexpr().map(|f| build_filter(&f));
                if modify || held.is_some() {
                    h.modify(|x| {
                        if let Some(f) = held {
                            f()
                        }
                        *x = new
                    })
                } else {
                    h.reload(new)
                }
            }
        }
    }
}

fn count(log: &LeafLog, cs: u8) -> usize {
    let mut g = log.lock().unwrap();
    let n = g.iter().filter(|c| c.kind == LKind::Event && c.cs == cs as i64).count();
    let other = g.iter().filter(|c| c.kind == LKind::Event && c.cs != cs as i64).count();
    g.clear();
    n + other * 1000
}

fn run_case(case: &Case) -> Outcome {
    let log1: LeafLog = Default::default();
    let log2: LeafLog = Default::default();
    // a reload handle whose collector has been dropped. Made BEFORE the collector under test
    // (whose registration then prunes the dead one from the registry's list), and as a real
    // Dispatch only in histories that use it: otherwise the process would always have had two
    // dispatchers, and a defect in the single-dispatcher paths could never show
    let dead_handle = {
        let (l, h) = reload::Subscriber::new(Some(LevelFilter::INFO));
        if case.ops.iter().any(|o| matches!(o, Op::DeadHandleReload { .. })) {
            drop(Dispatch::new(Registry::default().with(l)));
        } else {
            drop(l);
        }
        Arc::new(h)
    };
    let (dispatch, handle) = match case.kind {
        Kind::GlobalInner => {
            let (l, h) = reload::Subscriber::new(case.initial.gfilter().map(|g| g.build()));
            let stack: BS = l.and_then(RecLeaf::new(log1.clone())).and_then(RecLeaf::new(log2.clone())).boxed();
            (Dispatch::new(Registry::default().with(stack)), H::Global(h))
        }
        Kind::GlobalOuter => {
            let (l, h) = reload::Subscriber::new(case.initial.gfilter().map(|g| g.build()));
            let stack: BS = RecLeaf::new(log1.clone()).and_then(RecLeaf::new(log2.clone())).and_then(l).boxed();
            (Dispatch::new(Registry::default().with(stack)), H::Global(h))
        }
        Kind::PerLayer => {
            let (f, h) = reload::Subscriber::new(case.initial.fexpr().map(|f| build_filter(&f)));
            let stack: BS = RecLeaf::new(log1.clone()).with_filter(f).and_then(RecLeaf::new(log2.clone())).boxed();
            (Dispatch::new(Registry::default().with(stack)), H::Filter(h))
        }
    };
    let handle = Arc::new(handle);
    let mut dispatch = Some(dispatch);
    let _bystander_alive = if case.bystander { Some(Dispatch::new(Registry::default().with(RecLeaf::new(Default::default())))) } else { None };
    let mut st: Stepper<TState> = Stepper::new(2);
    for t in 0..2 {
        let d = dispatch.clone().unwrap();
        let _ = st.run(t, move |ts| ts.default = Some(dispatch::set_default(&d)));
    }
    // helper thread for racing emissions
    let (req_tx, req_rx): (Sender<u8>, Receiver<u8>) = channel();
    let helper_reload: Arc<Mutex<Option<Val>>> = Arc::new(Mutex::new(None));
    let (hr, hh) = (helper_reload.clone(), handle.clone());
    let (done_tx, done_rx): (Sender<()>, Receiver<()>) = channel();
    let hd = dispatch.clone().unwrap();
    let helper = std::thread::spawn(move || {
        vp_rec::TAG.with(|c| c.set(9));
        let _g = dispatch::set_default(&hd);
        drop(hd);
        while let Ok(cs) = req_rx.recv() {
            if cs == 255 {
                break;
            }
            if cs == 254 {
                let v = hr.lock().unwrap().take();
                if let Some(v) = v {
                    let _ = hh.reload(&v, false, None);
                }
                let _ = done_tx.send(());
                continue;
            }
            emit_event(cs);
            let _ = done_tx.send(());
        }
    });
    let req_tx = Arc::new(Mutex::new(req_tx));
    let done_rx = Arc::new(Mutex::new(done_rx));

    let mut cur = case.initial.clone();
    let mut hit = [false; 15];
    let mut verdict_at_hit: [Option<bool>; 15] = [None; 15];
    let mut last_hit_thread: [Option<u8>; 15] = [None; 15];
    let mut classes: Vec<String> = vec![];
    let mut nontrivial = false;
    let mut dropped = false;
    let l1_accepts = |v: &Val, cs: u8| v.accepts(cs_level(cs), cs_target(cs));
    let l2_accepts = |v: &Val, cs: u8| match case.kind {
        Kind::PerLayer => true,
        _ => v.accepts(cs_level(cs), cs_target(cs)),
    };

    macro_rules! fail {
        ($i:expr, $sig:expr, $($arg:tt)*) => {{
            let o = Outcome::fail($sig, format!("op #{} {:?} (kind {:?}, current value {:?}): {}", $i, case.ops[$i], case.kind, cur, format!($($arg)*)));
            std::mem::forget(st);
            return o;
        }};
    }
    let check_max = |cur: &Val| -> Result<(), String> {
        let published = vp_rec::rank(&LevelFilter::current().into_level().unwrap_or(Level::ERROR)) * (LevelFilter::current() != LevelFilter::OFF) as u8;
        let need = match case.kind {
            _ if case.bystander => 5, // the bystander has no hint
            Kind::PerLayer => 5, // the unfiltered neighbour wants everything
            _ => cur.max_accepted(),
        };
        if published < need {
            return Err(format!("LevelFilter::current() has rank {published} but the current value accepts level rank {need}"));
        }
        if let (Kind::GlobalInner | Kind::GlobalOuter, Val::Level(r), false) = (case.kind, cur, case.bystander) {
            if published != *r {
                return Err(format!("LevelFilter::current() has rank {published}, expected exactly {r} (only one collector with a reloadable LevelFilter is live)"));
            }
        }
        Ok(())
    };

    for (i, op) in case.ops.iter().enumerate() {
        if dropped {
            break;
        }
        match op {
            Op::Emit { t, cs } => {
                let (t, cs) = (*t as usize % 2, *cs % 15);
                if let Err(e) = st.run(t, move |_| emit_event(cs)) {
                    fail!(i, "panic: emit", "{e}");
                }
                let (w1, w2) = (l1_accepts(&cur, cs), l2_accepts(&cur, cs));
                let (g1, g2) = (count(&log1, cs), count(&log2, cs));
                if g1 != w1 as usize || g2 != w2 as usize {
                    let cached = if hit[cs as usize] { "previously hit callsite" } else { "first hit" };
                    let sig = if (g1 < w1 as usize) || (g2 < w2 as usize) {
                        format!("emission after a completed reload still judged by an older, stricter value ({cached})")
                    } else {
                        format!("emission after a completed reload still judged by an older, laxer value ({cached})")
                    };
                    fail!(i, sig, "callsite {cs} (level {} target {:?}): filtered leaf got {g1} (expected {}), neighbour got {g2} (expected {}); published max {:?}", cs_level(cs), cs_target(cs), w1 as u8, w2 as u8, LevelFilter::current());
                }
                if let (Some(old), Some(th)) = (verdict_at_hit[cs as usize], last_hit_thread[cs as usize]) {
                    if old != w1 && th != t as u8 {
                        nontrivial = true;
                    }
                }
                hit[cs as usize] = true;
                verdict_at_hit[cs as usize] = Some(w1);
                last_hit_thread[cs as usize] = Some(t as u8);
            }
            Op::Reload { t, val } | Op::Modify { t, val } => {
                let t = *t as usize % 2;
                let (h, v, m) = (handle.clone(), val.clone(), matches!(op, Op::Modify { .. }));
                match st.run(t, move |_| h.reload(&v, m, None).is_ok()) {
                    Ok(true) => {}
                    Ok(false) => fail!(i, "reload failed although the collector is alive", "Err returned"),
                    Err(e) => fail!(i, "panic: reload", "{e}"),
                }
                cur = val.clone();
                if let Err(e) = check_max(&cur) {
                    fail!(i, "published max level wrong after reload", "{e}");
                }
                if matches!(val, Val::Absent) {
                    classes.push("reloaded_to_none".into());
                }
            }
            Op::DeadHandleReload { t } => {
                let t = *t as usize % 2;
                let dh = dead_handle.clone();
                match st.run(t, move |_| dh.reload(Some(LevelFilter::DEBUG)).map_err(|e| e.is_dropped())) {
                    Ok(Err(true)) => classes.push("reload_through_a_dead_handle_first".into()),
                    Ok(Err(false)) => fail!(i, "reload on a dropped collector returned a different error", "not is_dropped"),
                    Ok(Ok(())) => fail!(i, "reload succeeded although the collector is gone", "dead handle"),
                    Err(e) => fail!(i, "panic: reload", "{e}"),
                }
            }
            Op::ReloadRacing { t, val, cs } => {
                let (t, cs) = (*t as usize % 2, *cs % 15);
                let old = cur.clone();
                let (rq, dn) = (req_tx.clone(), done_rx.clone());
                tracing_core::verif::set_hook(Arc::new(move |site| {
                    if site == "reload::modify::after_unlock" {
                        let _ = rq.lock().unwrap().send(cs);
                        let _ = dn.lock().unwrap().recv();
                    }
                }));
                let (h, v) = (handle.clone(), val.clone());
                let r = st.run(t, move |_| h.reload(&v, false, None).is_ok());
                tracing_core::verif::clear_hook();
                match r {
                    Ok(true) => {}
                    Ok(false) => fail!(i, "reload failed although the collector is alive", "Err returned"),
                    Err(e) => fail!(i, "panic: reload", "{e}"),
                }
                let (g1, g2) = (count(&log1, cs), count(&log2, cs));
                let ok1 = g1 == l1_accepts(&old, cs) as usize || g1 == l1_accepts(val, cs) as usize;
                let ok2 = g2 == l2_accepts(&old, cs) as usize || g2 == l2_accepts(val, cs) as usize;
                if !ok1 || !ok2 {
                    fail!(i, "racing emission judged neither by the old nor by the new value", "emission of callsite {cs} between unlock and cache rebuild: filtered leaf got {g1}, neighbour got {g2}; old value {:?}", old);
                }
                cur = val.clone();
                hit[cs as usize] = true;
                verdict_at_hit[cs as usize] = Some(g1 == 1);
                last_hit_thread[cs as usize] = Some(9);
                classes.push("emission_between_unlock_and_rebuild".into());
                if let Err(e) = check_max(&cur) {
                    fail!(i, "published max level wrong after reload", "{e}");
                }
            }
            Op::ReloadWhileRegistering { t, val, cs } => {
                let (t, cs) = (*t as usize % 2, *cs % 15);
                let fresh = !hit[cs as usize];
                let old = cur.clone();
                let (sig_tx, sig_rx) = channel::<()>();
                let (rel_tx, rel_rx) = channel::<()>();
                let (sig_tx, rel_rx) = (Mutex::new(sig_tx), Mutex::new(rel_rx));
                let fired = Arc::new(std::sync::atomic::AtomicBool::new(false));
                let f2 = fired.clone();
                *vp_sub::REGISTER_HOOK.lock().unwrap() = Some(Arc::new(move || {
                    // only the helper's registration, only once
                    if vp_rec::tag() == 9 && !f2.swap(true, std::sync::atomic::Ordering::SeqCst) {
                        let _ = sig_tx.lock().unwrap().send(());
                        // a correct reload cannot finish before this registration does (it needs
                        // the registry's write lock), so this wait normally times out
                        let _ = rel_rx.lock().unwrap().recv_timeout(std::time::Duration::from_millis(25));
                    }
                }));
                let _ = req_tx.lock().unwrap().send(cs);
                // wait until the helper is inside its registration (or has finished without one)
                let (mut in_registration, mut got_done) = (false, false);
                let t0 = std::time::Instant::now();
                while t0.elapsed() < std::time::Duration::from_secs(2) {
                    if sig_rx.try_recv().is_ok() {
                        in_registration = true;
                        break;
                    }
                    if done_rx.lock().unwrap().try_recv().is_ok() {
                        got_done = true; // the emission finished without registering anything
                        break;
                    }
                    std::thread::sleep(std::time::Duration::from_micros(100));
                }
                let (h, v) = (handle.clone(), val.clone());
                let r = st.run(t, move |_| h.reload(&v, false, None).is_ok());
                let _ = rel_tx.send(());
                *vp_sub::REGISTER_HOOK.lock().unwrap() = None;
                match r {
                    Ok(true) => {}
                    Ok(false) => fail!(i, "reload failed although the collector is alive", "Err returned"),
                    Err(e) => fail!(i, "panic: reload", "{e}"),
                }
                if !got_done && done_rx.lock().unwrap().recv_timeout(std::time::Duration::from_secs(10)).is_err() {
                    std::mem::forget(st);
                    return Outcome { verdict: vp_engine::Verdict::Inconclusive("helper emission did not finish within 10 s".into()), nontrivial: false, classes: vec![], excluded_known: 0 };
                }
                // the racing emission itself may be judged by either value
                let (g1, g2) = (count(&log1, cs), count(&log2, cs));
                let ok1 = g1 == l1_accepts(&old, cs) as usize || g1 == l1_accepts(val, cs) as usize;
                let ok2 = g2 == l2_accepts(&old, cs) as usize || g2 == l2_accepts(val, cs) as usize;
                if !ok1 || !ok2 {
                    fail!(i, "racing emission judged neither by the old nor by the new value", "first hit of callsite {cs} on the helper thread while thread {t} reloads: filtered leaf got {g1}, neighbour got {g2}; old value {:?}", old);
                }
                cur = val.clone();
                hit[cs as usize] = true;
                if in_registration && fresh {
                    classes.push("reload_while_a_callsite_registers".into());
                }
                if let Err(e) = check_max(&cur) {
                    fail!(i, "published max level wrong after reload", "{e}");
                }
                // now that both have returned, the callsite is judged by the new value
                if let Err(e) = st.run(t, move |_| emit_event(cs)) {
                    fail!(i, "panic: emit", "{e}");
                }
                let (w1, w2) = (l1_accepts(&cur, cs), l2_accepts(&cur, cs));
                let (g1, g2) = (count(&log1, cs), count(&log2, cs));
                if g1 != w1 as usize || g2 != w2 as usize {
                    fail!(i, "a callsite that registered while a reload was under way keeps the old verdict", "callsite {cs}: filtered leaf got {g1} (expected {}), neighbour got {g2} (expected {})", w1 as u8, w2 as u8);
                }
                verdict_at_hit[cs as usize] = Some(w1);
                last_hit_thread[cs as usize] = Some(t as u8);
            }
            Op::ModifyHeld { t, val, cs } => {
                let (t, cs) = (*t as usize % 2, *cs % 15);
                let old = cur.clone();
                let rq = req_tx.clone();
                let held = move || {
                    // the write lock is held here; the helper's emission has to wait for it
                    let _ = rq.lock().unwrap().send(cs);
                    std::thread::sleep(std::time::Duration::from_millis(25));
                };
                let (h, v) = (handle.clone(), val.clone());
                let r = st.run(t, move |_| h.reload(&v, true, Some(&held)).is_ok());
                match r {
                    Ok(true) => {}
                    Ok(false) => fail!(i, "reload failed although the collector is alive", "Err returned"),
                    Err(e) => fail!(i, "panic: modify", "{e}"),
                }
                if done_rx.lock().unwrap().recv_timeout(std::time::Duration::from_secs(10)).is_err() {
                    std::mem::forget(st);
                    return Outcome { verdict: vp_engine::Verdict::Inconclusive("helper emission did not finish within 10 s".into()), nontrivial: false, classes: vec![], excluded_known: 0 };
                }
                let (g1, g2) = (count(&log1, cs), count(&log2, cs));
                let ok1 = g1 == l1_accepts(&old, cs) as usize || g1 == l1_accepts(val, cs) as usize;
                let ok2 = g2 == l2_accepts(&old, cs) as usize || g2 == l2_accepts(val, cs) as usize;
                if !ok1 || !ok2 {
                    fail!(i, "emission during a reload in progress judged neither by the old nor by the new value", "callsite {cs} emitted while modify held the lock: filtered leaf got {g1}, neighbour got {g2}; old value {:?}", old);
                }
                cur = val.clone();
                hit[cs as usize] = true;
                verdict_at_hit[cs as usize] = Some(g1 == 1);
                last_hit_thread[cs as usize] = Some(9);
                classes.push("emission_while_modify_holds_lock".into());
            }
            Op::ReloadDuringRebuild { t, val, val2, k } => {
                let t = *t as usize % 2;
                *helper_reload.lock().unwrap() = Some(val2.clone());
                let calls = Arc::new(std::sync::atomic::AtomicU32::new(0));
                let (rq, kk) = (req_tx.clone(), 1 + (*k as u32 % 4));
                let fired = Arc::new(std::sync::atomic::AtomicBool::new(false));
                let fired2 = fired.clone();
                *vp_sub::REGISTER_HOOK.lock().unwrap() = Some(Arc::new(move || {
                    if calls.fetch_add(1, std::sync::atomic::Ordering::SeqCst) + 1 == kk {
                        fired2.store(true, std::sync::atomic::Ordering::SeqCst);
                        let _ = rq.lock().unwrap().send(254);
                        // give the helper time to store its value while this rebuild is under way
                        std::thread::sleep(std::time::Duration::from_millis(3));
                    }
                }));
                let (h, v) = (handle.clone(), val.clone());
                let r = st.run(t, move |_| h.reload(&v, false, None).is_ok());
                *vp_sub::REGISTER_HOOK.lock().unwrap() = None;
                match r {
                    Ok(true) => {}
                    Ok(false) => fail!(i, "reload failed although the collector is alive", "Err returned"),
                    Err(e) => fail!(i, "panic: reload", "{e}"),
                }
                // if no callsite was registered yet the hook never fired: run the helper now.
                // (Decided by the hook's own flag, not by whether the helper has already taken
                // the value: a slow helper would otherwise be asked twice and its second
                // "done" would be mistaken for the answer to a later request.)
                if !fired.load(std::sync::atomic::Ordering::SeqCst) {
                    let _ = req_tx.lock().unwrap().send(254);
                }
                if done_rx.lock().unwrap().recv_timeout(std::time::Duration::from_secs(10)).is_err() {
                    std::mem::forget(st);
                    return Outcome { verdict: vp_engine::Verdict::Inconclusive("helper reload did not finish within 10 s".into()), nontrivial: false, classes: vec![], excluded_known: 0 };
                }
                count(&log1, 0);
                count(&log2, 0);
                cur = val2.clone();
                classes.push("second_reload_during_cache_rebuild".into());
                if let Err(e) = check_max(&cur) {
                    fail!(i, "published max level wrong after reload", "{e}");
                }
                // every callsite hit so far must now be judged by the second value
                for cs in 0..15u8 {
                    if !hit[cs as usize] {
                        continue;
                    }
                    if let Err(e) = st.run(t, move |_| emit_event(cs)) {
                        fail!(i, "panic: emit", "{e}");
                    }
                    let (w1, w2) = (l1_accepts(&cur, cs), l2_accepts(&cur, cs));
                    let (g1, g2) = (count(&log1, cs), count(&log2, cs));
                    if g1 != w1 as usize || g2 != w2 as usize {
                        fail!(i, "after two overlapping reloads an emission is judged by the value of the first one", "callsite {cs}: filtered leaf got {g1} (expected {}), neighbour got {g2} (expected {})", w1 as u8, w2 as u8);
                    }
                    verdict_at_hit[cs as usize] = Some(w1);
                    last_hit_thread[cs as usize] = Some(t as u8);
                }
            }
            Op::DropCollectorThenReload { val } => {
                let _ = req_tx.lock().unwrap().send(255);
                for t in 0..2 {
                    let _ = st.run(t, |ts| ts.default = None);
                }
                dispatch = None;
                // the helper holds a clone until it exits
                std::thread::sleep(std::time::Duration::from_millis(5));
                let mut tries = 0;
                loop {
                    let r = handle.reload(val, false, None);
                    match r {
                        Err(e) if e.is_dropped() => break,
                        Err(e) => fail!(i, "reload on a dropped collector returned a different error", "{e}"),
                        Ok(()) => {
                            tries += 1;
                            if tries > 40 {
                                fail!(i, "reload succeeded although the collector is gone", "handle.reload returned Ok");
                            }
                            std::thread::sleep(std::time::Duration::from_millis(5));
                        }
                    }
                }
                dropped = true;
                classes.push("reload_after_collector_dropped".into());
            }
        }
    }
    let _ = req_tx.lock().unwrap().send(255);
    let _ = helper.join();
    drop(dispatch);
    classes.push(format!("{:?}", case.kind));
    classes.sort();
    classes.dedup();
    let r = std::panic::catch_unwind(std::panic::AssertUnwindSafe(move || drop(st)));
    if r.is_err() {
        return Outcome::fail("panic: teardown", "dropping threads panicked");
    }
    Outcome::pass(nontrivial, classes)
}

fn val_strategy() -> BoxedStrategy<Val> {
    prop_oneof![4 => (0u8..=5).prop_map(Val::Level), 2 => tab_strategy().prop_map(Val::Targets), 2 => tab_strategy().prop_map(Val::Env), 2 => Just(Val::Absent)].boxed()
}

struct C12;
impl Property for C12 {
    type Case = Case;
    fn id(&self) -> &'static str {
        "C12"
    }
    fn isolation(&self) -> Isolation {
        Isolation::Child
    }
    fn cases(&self, tier: Tier) -> u32 {
        tier.pick(12_000, 150_000)
    }
    fn strategy(&self, tier: Tier) -> BoxedStrategy<Case> {
        let t = || 0u8..2;
        let cs = || prop_oneof![2 => 0u8..15, 3 => proptest::sample::select(vec![0u8, 4, 8, 9, 13])];
        let op = prop_oneof![
            10 => (t(), cs()).prop_map(|(t, cs)| Op::Emit { t, cs }),
            3 => (t(), val_strategy()).prop_map(|(t, val)| Op::Reload { t, val }),
            1 => (t(), val_strategy()).prop_map(|(t, val)| Op::Modify { t, val }),
            1 => (t(), val_strategy(), cs()).prop_map(|(t, val, cs)| Op::ReloadRacing { t, val, cs }),
            1 => t().prop_map(|t| Op::DeadHandleReload { t }),
            1 => (t(), val_strategy(), cs()).prop_map(|(t, val, cs)| Op::ReloadWhileRegistering { t, val, cs }),
            1 => (t(), val_strategy(), val_strategy(), 0u8..4).prop_map(|(t, val, val2, k)| Op::ReloadDuringRebuild { t, val, val2, k }),
        ];
        let max = tier.pick(24usize, 40usize);
        let kind = prop_oneof![Just(Kind::GlobalInner), Just(Kind::GlobalOuter), Just(Kind::PerLayer)];
        (kind, val_strategy(), proptest::collection::vec(op, 1..max), proptest::option::weighted(0.06, (t(), val_strategy(), cs())), proptest::option::weighted(0.15, val_strategy()), any::<u16>(), proptest::bool::weighted(0.3))
            .prop_map(|(kind, initial, mut ops, held, dropv, pos, bystander)| {
                if let Some((t, val, cs)) = held {
                    let p = vp_engine::pick(pos, ops.len() + 1);
                    ops.insert(p, Op::ModifyHeld { t, val, cs });
                }
                if let Some(val) = dropv {
                    ops.push(Op::DropCollectorThenReload { val });
                }
                Case { kind, initial, ops, bystander }
            })
            .boxed()
    }
    fn run(&self, case: &Case) -> Outcome {
        run_case(case)
    }
    fn rule(&self) -> String {
        "histories of <=24 (thorough <=40) ops {Emit at one of 15 level x target macro callsites on thread A or B, Reload, Modify, Reload with an emission on a helper thread between write-unlock and cache rebuild (hook), Reload while the helper thread's first hit of a callsite is inside its registration (hook in a layer's register_callsite), Reload during whose cache rebuild a helper thread starts a second reload (hook in a layer's register_callsite), Modify holding the lock while the helper emits (6% of cases), drop collector then reload (15%)} over a stack with one reloadable Option<filter> (global layer inside / outside, or per-layer filter) between values {LevelFilter, Targets table, static EnvFilter table, None}, plus an unfiltered neighbour layer; fresh process per history. non-trivial: a reload flips the verdict of a callsite that was hit before and the next hit of that callsite comes from the other thread; distinct by case".into()
    }
    fn assumptions(&self) -> Vec<String> {
        vec![
            "the racing clause is explored at one hook point (between releasing the write lock and rebuilding the interest cache) and by holding the write lock for 25 ms while another thread emits; other interleavings of the reload's steps are not explored".into(),
            "reload wraps filters / global filter layers (not per-layer-filtered layers: documented limitation)".into(),
            "without a bystander only the collector under test is live in the process, so LevelFilter::current() is attributable to it; in 30 % of the cases a second collector (accepts everything, no hint) is alive as well and only `published >= needed` is asserted".into(),
        ]
    }
    fn child_timeout_s(&self) -> u64 {
        40
    }
}

fn main() {
    vp_engine::main(C12)
}
