//! C05, racing stage — a registry span closes exactly once, after the last reference and the
//! last child, under interleavings of the reference-count operations.
//!
//! A small forest is created sequentially; handles (ids with one reference each) are dealt to
//! 2-3 managed threads, which clone, drop, enter, exit and create children concurrently under a
//! generated schedule (vp_rec::sched, yield points in the registry's reference-count paths).
//! All threads share one default dispatcher (the F2 trigger region is avoided by construction).
//! A recording layer notes every on_close with the scheduler's logical time and checks that the
//! span's data and ancestors are readable inside the callback.

use proptest::prelude::*;
use serde::{Deserialize, Serialize};
use std::sync::atomic::{AtomicU64, Ordering};
use std::sync::{Arc, Mutex};
use tracing_core::field::FieldSet;
use tracing_core::metadata::Kind;
use tracing_core::{callsite::Callsite, identify_callsite, span, Dispatch, Interest, Level, Metadata};
use tracing_subscriber::registry::{LookupSpan, Registry};
use tracing_subscriber::subscribe::{CollectExt, Context, Subscribe};
use vp_engine::{Isolation, Outcome, Property, Tier};

struct Cs;
static CS: Cs = Cs;
static META: Metadata<'static> = Metadata::new("rs", "c05r", Level::INFO, None, None, None, FieldSet::new(&[], identify_callsite!(&CS)), Kind::SPAN);
impl Callsite for Cs {
    fn set_interest(&self, _: Interest) {}
    fn metadata(&self) -> &Metadata<'_> {
        &META
    }
}

#[derive(Clone, Copy, Debug, Serialize, Deserialize, PartialEq)]
enum ROp {
    /// clone handle `h` (a new handle) and keep it
    Clone { h: u8 },
    /// drop handle `h`
    Drop { h: u8 },
    Enter { h: u8 },
    /// exit the most recently entered span of this thread
    Exit,
    /// create a child of handle `h` and keep its handle
    Child { h: u8 },
    /// create a root span and keep its handle
    Root,
}
#[derive(Clone, Debug, Serialize, Deserialize)]
struct ThreadProg {
    /// spans of the prelude forest this thread gets a handle to
    holds: Vec<u8>,
    ops: Vec<ROp>,
}
#[derive(Clone, Debug, Serialize, Deserialize)]
struct Case {
    /// prelude forest: parent index (an earlier span) or None
    spans: Vec<Option<u8>>,
    threads: Vec<ThreadProg>,
    /// prelude spans whose original handle the main thread keeps until after the race
    main_keeps: u8,
    sched: Vec<u8>,
}

// ---- recording layer ------------------------------------------------------------------------
struct Serial(u64);
#[derive(Debug, Clone)]
struct Closed {
    serial: u64,
    at: u64,
    problems: Vec<String>,
}
struct RLayer {
    next: AtomicU64,
    closed: Arc<Mutex<Vec<Closed>>>,
    clock: Arc<Mutex<Option<Arc<vp_rec::sched::Sched>>>>,
    parents: Arc<Mutex<std::collections::HashMap<u64, Option<u64>>>>,
}
thread_local! {
    static LAST_SERIAL: std::cell::Cell<u64> = const { std::cell::Cell::new(0) };
}
impl Subscribe<Registry> for RLayer {
    fn on_new_span(&self, attrs: &span::Attributes<'_>, id: &span::Id, ctx: Context<'_, Registry>) {
        let serial = self.next.fetch_add(1, Ordering::SeqCst) + 1;
        let sp = ctx.span(id).expect("new span is in the registry");
        sp.extensions_mut().insert(Serial(serial));
        let parent = sp.parent().and_then(|p| p.extensions().get::<Serial>().map(|s| s.0));
        let _ = attrs;
        self.parents.lock().unwrap().insert(serial, parent);
        LAST_SERIAL.with(|l| l.set(serial));
    }
    fn on_close(&self, id: span::Id, ctx: Context<'_, Registry>) {
        let at = self.clock.lock().unwrap().as_ref().map(|s| s.now()).unwrap_or(u64::MAX);
        let mut problems = Vec::new();
        let mut serial = 0;
        match ctx.span(&id) {
            None => problems.push("the closing span is not readable inside on_close".to_string()),
            Some(sp) => {
                match sp.extensions().get::<Serial>() {
                    Some(s) => serial = s.0,
                    None => problems.push("the closing span has lost its extensions inside on_close".to_string()),
                }
                // ancestors must still be there, with their own data
                let want: Vec<u64> = {
                    let p = self.parents.lock().unwrap();
                    let mut v = vec![];
                    let mut cur = p.get(&serial).copied().flatten();
                    while let Some(c) = cur {
                        v.push(c);
                        cur = p.get(&c).copied().flatten();
                    }
                    v
                };
                let got: Vec<u64> = sp.scope().skip(1).map(|a| a.extensions().get::<Serial>().map(|s| s.0).unwrap_or(0)).collect();
                if got != want {
                    problems.push(format!("ancestors readable inside on_close: {got:?}, expected {want:?}"));
                }
            }
        }
        self.closed.lock().unwrap().push(Closed { serial, at, problems });
    }
}

#[derive(Debug, Clone)]
struct Handle {
    id: span::Id,
    serial: u64,
    /// the span has no parent
    root: bool,
}
#[derive(Debug, Clone)]
struct EnteredVia {
    id: span::Id,
    serial: u64,
    /// index of the handle the span was entered through
    via: usize,
}
#[derive(Debug, Clone)]
struct Release {
    serial: u64,
    start: u64,
}
struct ThreadOut {
    releases: Vec<Release>,
    created: Vec<(u64, Option<u64>)>,
    created_ids: Vec<(u64, span::Id)>,
    ops_done: u32,
}

fn new_span(d: &Dispatch, parent: Option<&span::Id>) -> Handle {
    let vs = META.fields().value_set(&[]);
    let attrs = match parent {
        Some(p) => span::Attributes::child_of(p.clone(), &META, &vs),
        None => span::Attributes::new_root(&META, &vs),
    };
    let id = d.new_span(&attrs);
    Handle { id, serial: LAST_SERIAL.with(|l| l.get()), root: parent.is_none() }
}

fn run_case(case: &Case) -> Outcome {
    let closed = Arc::new(Mutex::new(Vec::new()));
    let clock = Arc::new(Mutex::new(None));
    let parents = Arc::new(Mutex::new(std::collections::HashMap::new()));
    let layer = RLayer { next: AtomicU64::new(0), closed: closed.clone(), clock: clock.clone(), parents: parents.clone() };
    let d = Dispatch::new(Registry::default().with(layer));
    let _g = tracing_core::dispatch::set_default(&d);
    // prelude forest
    let mut forest: Vec<Handle> = Vec::new();
    for (i, p) in case.spans.iter().enumerate() {
        let parent = p.and_then(|p| if i > 0 { Some(forest[p as usize % i].id.clone()) } else { None });
        forest.push(new_span(&d, parent.as_ref()));
    }
    let n = forest.len();
    // deal handles: one extra reference per dealt handle
    let mut dealt: Vec<Vec<Handle>> = Vec::new();
    for t in &case.threads {
        let mut v = Vec::new();
        for h in &t.holds {
            let f = &forest[*h as usize % n];
            v.push(Handle { id: d.clone_span(&f.id), serial: f.serial, root: f.root });
        }
        dealt.push(v);
    }
    // the main thread lets go of the originals it does not keep
    let mut releases: Vec<Release> = Vec::new();
    let mut kept: Vec<Handle> = Vec::new();
    for (i, f) in forest.iter().enumerate() {
        if case.main_keeps >> i & 1 == 1 {
            kept.push(f.clone());
        } else {
            releases.push(Release { serial: f.serial, start: 0 });
            d.try_close(f.id.clone());
        }
    }
    let closed_before_race = closed.lock().unwrap().len();
    // the race
    let mut bodies: Vec<Box<dyn FnOnce(Arc<vp_rec::sched::Sched>, usize) -> ThreadOut + Send>> = Vec::new();
    for (t, prog) in case.threads.iter().enumerate() {
        let (d, ops, mut hs, clock) = (d.clone(), prog.ops.clone(), dealt[t].clone(), clock.clone());
        bodies.push(Box::new(move |sched, _tid| {
            *clock.lock().unwrap() = Some(sched.clone());
            let _g = tracing_core::dispatch::set_default(&d);
            let mut out = ThreadOut { releases: vec![], created: vec![], created_ids: vec![], ops_done: 0 };
            let mut entered: Vec<EnteredVia> = Vec::new();
            for op in &ops {
                tracing_core::verif::yield_point("op::boundary");
                let start = sched.now();
                let pick = |h: u8, hs: &Vec<Handle>| if hs.is_empty() { None } else { Some(h as usize % hs.len()) };
                match *op {
                    ROp::Clone { h } => {
                        if let Some(k) = pick(h, &hs) {
                            let nh = Handle { id: d.clone_span(&hs[k].id), serial: hs[k].serial, root: hs[k].root };
                            hs.push(nh);
                        }
                    }
                    ROp::Drop { h } => {
                        // A handle through which the span is currently entered cannot be dropped
                        // (the guard borrows or owns it); other handles of the same span can.
                        // (Releasing the LAST reference from inside `exit` is only possible
                        // through the raw collector API and runs into F2's root cause: the
                        // registry then releases the parent through a re-entrant get_default.)
                        // For a root span the guard's handle may go first as well (raw collector
                        // API): the exit then releases the last reference and has to close it.
                        let free: Vec<usize> = (0..hs.len()).filter(|k| hs[*k].root || !entered.iter().any(|e| e.id == hs[*k].id && e.via == *k)).collect();
                        if let Some(k) = if free.is_empty() { None } else { Some(free[h as usize % free.len()]) } {
                            // indices above k shift down
                            for e in entered.iter_mut() {
                                if e.via == k {
                                    e.via = usize::MAX; // the handle it was entered through is gone
                                } else if e.via > k && e.via != usize::MAX {
                                    e.via -= 1;
                                }
                            }
                            let x = hs.remove(k);
                            out.releases.push(Release { serial: x.serial, start });
                            d.try_close(x.id);
                        }
                    }
                    ROp::Enter { h } => {
                        if let Some(k) = pick(h, &hs) {
                            // re-entering a span already entered on this thread is excluded
                            if !entered.iter().any(|e| e.serial == hs[k].serial) {
                                d.enter(&hs[k].id);
                                entered.push(EnteredVia { id: hs[k].id.clone(), serial: hs[k].serial, via: k });
                            }
                        }
                    }
                    ROp::Exit => {
                        if let Some(e) = entered.pop() {
                            out.releases.push(Release { serial: e.serial, start });
                            d.exit(&e.id);
                        }
                    }
                    ROp::Child { h } => {
                        if let Some(k) = pick(h, &hs) {
                            let c = new_span(&d, Some(&hs[k].id));
                            out.created.push((c.serial, Some(hs[k].serial)));
                            out.created_ids.push((c.serial, c.id.clone()));
                            hs.push(c);
                        }
                    }
                    ROp::Root => {
                        let c = new_span(&d, None);
                        out.created.push((c.serial, None));
                        out.created_ids.push((c.serial, c.id.clone()));
                        hs.push(c);
                    }
                }
                out.ops_done += 1;
            }
            // let go of everything: exits first (LIFO), then the handles
            while let Some(e) = entered.pop() {
                tracing_core::verif::yield_point("op::boundary");
                out.releases.push(Release { serial: e.serial, start: sched.now() });
                d.exit(&e.id);
            }
            while let Some(x) = hs.pop() {
                tracing_core::verif::yield_point("op::boundary");
                out.releases.push(Release { serial: x.serial, start: sched.now() });
                d.try_close(x.id);
            }
            out
        }));
    }
    let run = vp_rec::sched::run(bodies, &case.sched, 150);
    let ctx = |extra: String| format!("{extra}; case = {}; closes = {:?}; first yield points {:?}", serde_json::to_string(case).unwrap_or_default(), closed.lock().unwrap(), run.trace.iter().take(260).collect::<Vec<_>>());
    if let Some(s) = &run.stuck {
        return Outcome { verdict: vp_engine::Verdict::Inconclusive(s.clone()), nontrivial: false, classes: vec![], excluded_known: 0 };
    }
    if let Some(dl) = &run.deadlock {
        return Outcome::fail("deadlock between threads releasing span references", ctx(dl.clone()));
    }
    let mut created: Vec<(u64, Option<u64>)> = Vec::new();
    let mut all_ids: Vec<(u64, span::Id)> = forest.iter().map(|f| (f.serial, f.id.clone())).collect();
    for (t, r) in run.results.iter().enumerate() {
        match r {
            Err(p) => return Outcome::fail("a thread panicked while cloning / dropping / entering spans", ctx(format!("thread {t}: {p}"))),
            Ok(o) => {
                releases.extend(o.releases.iter().cloned());
                created.extend(o.created.iter().cloned());
                all_ids.extend(o.created_ids.iter().cloned());
            }
        }
    }
    let race_end = u64::MAX - 1;
    // after the race the main thread drops what it kept
    *clock.lock().unwrap() = None;
    for k in kept {
        releases.push(Release { serial: k.serial, start: race_end });
        d.try_close(k.id);
    }
    let closes: Vec<Closed> = closed.lock().unwrap().clone();
    // every span: closed exactly once, readable, after all its references' release ops started,
    // after all its children
    let parent_of: std::collections::HashMap<u64, Option<u64>> = parents.lock().unwrap().clone();
    let all_serials: Vec<u64> = parent_of.keys().copied().collect();
    for c in &closes {
        if let Some(p) = c.problems.first() {
            return Outcome::fail("span data not readable inside on_close", ctx(format!("span #{}: {p}", c.serial)));
        }
    }
    for s in &all_serials {
        let n = closes.iter().filter(|c| c.serial == *s).count();
        if n == 0 {
            return Outcome::fail("a span was never closed although every reference was dropped and every child closed", ctx(format!("span #{s}")));
        }
        if n > 1 {
            return Outcome::fail("a span was closed more than once", ctx(format!("span #{s}: {n} on_close calls")));
        }
    }
    let pos = |s: u64| closes.iter().position(|c| c.serial == s).unwrap();
    for s in &all_serials {
        let c = &closes[pos(*s)];
        // on_close at logical time `at` (u64::MAX when it fired outside the race, i.e. after it)
        for r in releases.iter().filter(|r| r.serial == *s) {
            if r.start > c.at {
                return Outcome::fail("a span was closed while a reference to it was still held", ctx(format!("span #{s} closed at step {}, but a release of one of its references only started at step {}", c.at, r.start)));
            }
        }
        for (child, p) in &parent_of {
            if *p == Some(*s) && pos(*child) > pos(*s) {
                return Outcome::fail("a span was closed before one of its children", ctx(format!("span #{s} closed before its child #{child}")));
            }
        }
    }
    // a closed span is gone from the registry (its slot may have been reused by a later span)
    if let Some(reg) = d.downcast_ref::<Registry>() {
        for (serial, id) in &all_ids {
            if let Some(sp) = reg.span(id) {
                let now = sp.extensions().get::<Serial>().map(|s| s.0);
                if now == Some(*serial) {
                    return Outcome::fail("a closed span is still in the registry", ctx(format!("span #{serial} ({id:?}) was closed but registry.span() still returns it")));
                }
            }
        }
    }
    let in_registry = |p: &str| p.starts_with("registry::") || p.starts_with("layered::");
    let preempted_in_registry = run.preempted_at.iter().filter(|p| in_registry(p)).count();
    let closed_in_race = closes.len() - closed_before_race;
    let mut classes = vec![format!("threads:{}", case.threads.len())];
    for (b, nme) in [
        (preempted_in_registry > 0, "preempted_inside_a_refcount_path"),
        (!created.is_empty(), "span_created_during_the_race"),
        (closed_in_race > 0, "span_closed_during_the_race"),
        (case.spans.iter().any(|p| p.is_some()), "forest_with_children"),
        (run.switches >= 4, "four_or_more_context_switches"),
    ] {
        if b {
            classes.push(nme.into());
        }
    }
    // two threads hold references to the same span
    let shared = (0..n).any(|i| case.threads.iter().filter(|t| t.holds.iter().any(|h| *h as usize % n == i)).count() >= 2);
    if shared {
        classes.push("span_shared_between_threads".into());
    }
    Outcome::pass(preempted_in_registry > 0 && shared && closed_in_race > 0, classes)
}

struct C05r;
impl Property for C05r {
    type Case = Case;
    fn id(&self) -> &'static str {
        "C05"
    }
    fn stage(&self) -> &'static str {
        "C05r"
    }
    fn isolation(&self) -> Isolation {
        Isolation::Child
    }
    fn cases(&self, tier: Tier) -> u32 {
        tier.pick(12_000, 300_000)
    }
    fn strategy(&self, tier: Tier) -> BoxedStrategy<Case> {
        let h = || 0u8..8;
        let op = prop_oneof![
            3 => h().prop_map(|h| ROp::Clone { h }),
            5 => h().prop_map(|h| ROp::Drop { h }),
            3 => h().prop_map(|h| ROp::Enter { h }),
            2 => Just(ROp::Exit),
            2 => h().prop_map(|h| ROp::Child { h }),
            1 => Just(ROp::Root),
        ];
        let nops = tier.pick(6usize, 9usize);
        let thread = (proptest::collection::vec(0u8..4, 1..4), proptest::collection::vec(op, 0..nops)).prop_map(|(holds, ops)| ThreadProg { holds, ops });
        let spans = proptest::collection::vec(proptest::option::weighted(0.6, 0u8..4), 1..5);
        (spans, proptest::collection::vec(thread, 2..4), 0u8..16, proptest::collection::vec(any::<u8>(), 0..tier.pick(200usize, 400usize))).prop_map(|(spans, threads, main_keeps, sched)| Case { spans, threads, main_keeps, sched }).boxed()
    }
    fn run(&self, case: &Case) -> Outcome {
        run_case(case)
    }
    fn rule(&self) -> String {
        "racing stage, one fresh process per case: a forest of 1-4 spans (each a root or the child of an earlier one) is created sequentially, 2-3 managed threads receive handles to 1-3 of them and run 0-5 (thorough 8) ops from {clone a held handle, drop one, enter one, exit the last entered, create a child of one, create a root} and finally exit and drop everything they hold; the main thread keeps a generated subset of the original handles until after the race. Schedule: up to 200 (thorough 400) bytes deciding at every yield point (reference-count paths of the registry, Layered::try_close, op boundaries) whether to keep the running thread (byte < 150) or switch. non-trivial: a context switch inside a reference-count path, a span shared between two threads, and a span closed during the race; distinct by case".into()
    }
    fn assumptions(&self) -> Vec<String> {
        vec![
            "sequentially consistent interleavings at the granularity of the hooked yield points (before the slab lookup and the fetch_add / fetch_sub in clone_span and try_close, in enter / exit, before the span is cleared, before the parent's reference is released, between the registry's try_close and on_close)".into(),
            "every thread uses the same default dispatcher (the F2 trigger - exit / close under a foreign default - is the sequential stage's business); re-entering a span already entered on the same thread is not generated".into(),
            "a span's close may not be logged before the release op of any of its references has started (logical time of the scheduler); the exact linearisation point inside the op is not assumed".into(),
        ]
    }
    fn child_timeout_s(&self) -> u64 {
        30
    }
}

fn main() {
    vp_engine::main(C05r)
}
