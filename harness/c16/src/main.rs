//! C16 — rolling appender: a write lands in its period's file; only the oldest are pruned.
//!
//! The clock is the cfg-guarded override `tracing_appender::rolling::verif_clock`. Case = rotation
//! kind x prefix/suffix x file limit x start instant (1971..9998, month/year ends, leap days) x
//! a sequence of clock steps (0, +-1 s, exactly to / around the next boundary, multi-period jumps,
//! occasional steps backwards) with a payload each, written through the exclusive `Write`
//! interface or through `MakeWriter` from 2-6 threads released at one instant.
//! Oracle: a (current file, next boundary) model with an own calendar conversion; after every
//! write the directory must equal the model's per-file byte strings.

use proptest::prelude::*;
use serde::{Deserialize, Serialize};
use std::collections::BTreeMap;
use std::io::Write;
use std::path::PathBuf;
use std::sync::{Arc, Barrier};
use tracing_appender::rolling::{verif_clock, RollingFileAppender, Rotation};
use tracing_subscriber::fmt::writer::MakeWriter;
use vp_engine::{Isolation, Outcome, Property, Tier};

#[derive(Clone, Copy, Debug, Serialize, Deserialize, PartialEq)]
enum Rot {
    Minutely,
    Hourly,
    Daily,
    Never,
}
impl Rot {
    fn period(self) -> i64 {
        match self {
            Rot::Minutely => 60,
            Rot::Hourly => 3600,
            Rot::Daily => 86_400,
            Rot::Never => 0,
        }
    }
}
#[derive(Clone, Copy, Debug, Serialize, Deserialize, PartialEq)]
enum Dt {
    Same,
    Plus(i64),
    /// exactly to the next boundary plus this offset (-1, 0, +1)
    Boundary(i64),
    /// k periods ahead plus a few seconds
    Jump(u8, i64),
    Back(i64),
}
#[derive(Clone, Debug, Serialize, Deserialize, PartialEq)]
struct Step {
    dt: Dt,
    /// threads > 1: written through MakeWriter from that many threads at once
    threads: u8,
}
#[derive(Clone, Debug, Serialize, Deserialize)]
struct Case {
    rot: Rot,
    prefix: Option<String>,
    suffix: Option<String>,
    max_files: Option<u8>,
    start: i64,
    steps: Vec<Step>,
    /// before step `.0` the appender is dropped and a new one is built on the same directory
    /// (a restart), with this file limit if given
    #[serde(default)]
    restart: Option<(u8, Option<u8>)>,
}

fn civil(secs: i64) -> (i64, u32, u32, u32, u32) {
    let days = secs.div_euclid(86_400);
    let sod = secs.rem_euclid(86_400);
    let z = days + 719_468;
    let era = z.div_euclid(146_097);
    let doe = z.rem_euclid(146_097);
    let yoe = (doe - doe / 1460 + doe / 36_524 - doe / 146_096) / 365;
    let y = yoe + era * 400;
    let doy = doe - (365 * yoe + yoe / 4 - yoe / 100);
    let mp = (5 * doy + 2) / 153;
    let d = (doy - (153 * mp + 2) / 5 + 1) as u32;
    let m = if mp < 10 { mp + 3 } else { mp - 9 } as u32;
    (if m <= 2 { y + 1 } else { y }, m, d, (sod / 3600) as u32, (sod / 60 % 60) as u32)
}
fn days_from_civil(y: i64, m: u32, d: u32) -> i64 {
    let y = if m <= 2 { y - 1 } else { y };
    let era = y.div_euclid(400);
    let yoe = y.rem_euclid(400);
    let mp = if m > 2 { m - 3 } else { m + 9 } as i64;
    let doy = (153 * mp + 2) / 5 + d as i64 - 1;
    era * 146_097 + yoe * 365 + yoe / 4 - yoe / 100 + doy - 719_468
}

fn file_name(case: &Case, t: i64) -> String {
    let (y, mo, d, h, mi) = civil(t);
    let date = match case.rot {
        Rot::Minutely => format!("{y:04}-{mo:02}-{d:02}-{h:02}-{mi:02}"),
        Rot::Hourly => format!("{y:04}-{mo:02}-{d:02}-{h:02}"),
        Rot::Daily | Rot::Never => format!("{y:04}-{mo:02}-{d:02}"),
    };
    match (case.rot, &case.prefix, &case.suffix) {
        (Rot::Never, Some(p), None) => p.clone(),
        (Rot::Never, Some(p), Some(s)) => format!("{p}.{s}"),
        (Rot::Never, None, Some(s)) => s.clone(),
        (_, Some(p), Some(s)) => format!("{p}.{date}.{s}"),
        (_, Some(p), None) => format!("{p}.{date}"),
        (_, None, Some(s)) => format!("{date}.{s}"),
        (_, None, None) => date,
    }
}
fn next_boundary(rot: Rot, t: i64) -> Option<i64> {
    let p = rot.period();
    if p == 0 {
        return None;
    }
    Some((t + p).div_euclid(p) * p)
}

fn read_dir(dir: &PathBuf) -> BTreeMap<String, Vec<u8>> {
    let mut m = BTreeMap::new();
    if let Ok(rd) = std::fs::read_dir(dir) {
        for e in rd.flatten() {
            if let Ok(b) = std::fs::read(e.path()) {
                m.insert(e.file_name().to_string_lossy().to_string(), b);
            }
        }
    }
    m
}
fn births(dir: &PathBuf) -> BTreeMap<String, std::time::SystemTime> {
    let mut m = BTreeMap::new();
    if let Ok(rd) = std::fs::read_dir(dir) {
        for e in rd.flatten() {
            if let Ok(c) = e.metadata().and_then(|md| md.created()) {
                m.insert(e.file_name().to_string_lossy().to_string(), c);
            }
        }
    }
    m
}

static SEQ: std::sync::atomic::AtomicU64 = std::sync::atomic::AtomicU64::new(0);

fn run_case(case: &Case) -> Outcome {
    let dir = vp_engine::kf::verif_dir().join("harness/target/scratch/c16").join(format!("{}-{}", std::process::id(), SEQ.fetch_add(1, std::sync::atomic::Ordering::SeqCst)));
    let _ = std::fs::remove_dir_all(&dir);
    std::fs::create_dir_all(&dir).expect("scratch dir");
    let r = run_in(case, &dir);
    verif_clock::clear();
    let _ = std::fs::remove_dir_all(&dir);
    r
}

fn run_in(case: &Case, dir: &PathBuf) -> Outcome {
    let mut t = case.start;
    verif_clock::set(t);
    let build = |limit: Option<usize>| {
        let mut b = RollingFileAppender::builder().rotation(match case.rot {
            Rot::Minutely => Rotation::MINUTELY,
            Rot::Hourly => Rotation::HOURLY,
            Rot::Daily => Rotation::DAILY,
            Rot::Never => Rotation::NEVER,
        });
        if let Some(p) = &case.prefix {
            b = b.filename_prefix(p.clone());
        }
        if let Some(s) = &case.suffix {
            b = b.filename_suffix(s.clone());
        }
        if let Some(k) = limit {
            b = b.max_log_files(k);
        }
        b.build(dir)
    };
    let mut limit = case.max_files.map(|k| (k as usize).clamp(1, 4));
    let mut app = match build(limit) {
        Ok(a) => a,
        Err(e) => return Outcome::fail("appender could not be built", format!("{e}; case = {}", serde_json::to_string(case).unwrap_or_default())),
    };
    // model
    let mut files: BTreeMap<String, Vec<u8>> = BTreeMap::new();
    let mut current = file_name(case, t);
    files.insert(current.clone(), vec![]);
    let mut next = next_boundary(case.rot, t);
    let (mut boundaries, mut exact_or_multi, mut pruned, mut backwards, mut concurrent_rotation) = (0u32, false, false, false, false);
    let mut raced_into_pruned = false;
    let mut restarted = false;
    let mut backlog = false;
    let fail = |sig: &str, d: String| Outcome::fail(sig, format!("{d}; case = {}", serde_json::to_string(case).unwrap_or_default()));
    let mut n = 0u32;
    for (si, st) in case.steps.iter().enumerate() {
        let p = case.rot.period();
        let new_t = match st.dt {
            Dt::Same => t,
            Dt::Plus(x) => t + x.clamp(0, 100_000),
            Dt::Boundary(off) => match next {
                Some(nb) => nb + off.clamp(-1, 1),
                None => t + 1,
            },
            Dt::Jump(k, extra) => t + (k as i64 % 5 + 1) * p.max(60) + extra.clamp(0, 59),
            Dt::Back(x) => {
                backwards = true;
                t - x.clamp(1, 7200)
            }
        };
        // keep inside the years the property quantifies over
        let new_t = new_t.clamp(days_from_civil(1971, 1, 1) * 86_400, days_from_civil(9998, 12, 31) * 86_400);
        t = new_t;
        verif_clock::set(t);
        if let Some((at, new_limit)) = case.restart {
            if at as usize % case.steps.len() == si && si > 0 {
                // restart: the new appender opens (or creates) the file of the current period and
                // does not prune; the backlog is dealt with by its next rotation
                drop(app);
                if let Some(k) = new_limit {
                    limit = Some((k as usize).clamp(1, 4));
                }
                app = match build(limit) {
                    Ok(a) => a,
                    Err(e) => return fail("appender could not be rebuilt", format!("step {si}: {e}")),
                };
                current = file_name(case, t);
                files.entry(current.clone()).or_default();
                next = next_boundary(case.rot, t);
                restarted = true;
                backlog = true;
            }
        }
        let before_births = births(dir);
        let before_files: Vec<String> = read_dir(dir).keys().cloned().collect();
        // model transition
        let rotates = matches!(next, Some(nb) if t >= nb);
        let old_file = current.clone();
        if rotates {
            let nb = next.unwrap();
            boundaries += 1;
            if t == nb || t >= nb + p {
                exact_or_multi = true;
            }
            current = file_name(case, t);
            next = next_boundary(case.rot, t);
        }
        let threads = (st.threads as usize).clamp(1, 6);
        let payloads: Vec<Vec<u8>> = (0..threads)
            .map(|k| {
                n += 1;
                format!("[{si}:{k}:{n}]").into_bytes()
            })
            .collect();
        if threads == 1 {
            if let Err(e) = app.write_all(&payloads[0]).and_then(|_| app.flush()) {
                return fail("write failed", format!("step {si}: {e}"));
            }
        } else {
            let barrier = Arc::new(Barrier::new(threads));
            let appr = &app;
            let errs: Vec<String> = std::thread::scope(|sc| {
                let hs: Vec<_> = payloads
                    .iter()
                    .map(|pl| {
                        let b = barrier.clone();
                        sc.spawn(move || {
                            b.wait();
                            let mut w = appr.make_writer();
                            w.write_all(pl).and_then(|_| w.flush()).err().map(|e| e.to_string())
                        })
                    })
                    .collect();
                hs.into_iter().filter_map(|h| h.join().ok().flatten()).collect()
            });
            if let Some(e) = errs.first() {
                return fail("write through MakeWriter failed", format!("step {si}: {e}"));
            }
            if rotates {
                concurrent_rotation = true;
            }
        }
        // expected directory
        let real = read_dir(dir);
        if rotates {
            // pruning happens before the new file is created
            if let Some(k) = limit {
                let existing: Vec<&String> = before_files.iter().filter(|f| case.prefix.as_ref().map(|p| f.starts_with(p.as_str())).unwrap_or(true) && case.suffix.as_ref().map(|s| f.ends_with(s.as_str())).unwrap_or(true)).collect();
                if existing.len() >= k {
                    pruned = true;
                    // a file of the new period's name can already exist (the clock went back and a
                    // restarted appender wrote there): if it was pruned and created again its
                    // birth time changed
                    let after_births = births(dir);
                    let recreated = |f: &String| f == &current && before_births.get(f).is_some() && before_births.get(f) != after_births.get(f);
                    let removed: Vec<&String> = before_files.iter().filter(|f| !real.contains_key(*f) || recreated(f)).collect();
                    let want_removed = existing.len() - (k - 1);
                    if removed.len() != want_removed.min(existing.len()) {
                        return fail("pruning removed the wrong number of files", format!("step {si}: {} files matched, limit {k}: removed {:?}", existing.len(), removed));
                    }
                    // oldest first (ties in the birth time are tolerated)
                    if let (Some(newest_removed), Some(oldest_kept)) = (
                        removed.iter().filter_map(|f| before_births.get(*f)).max(),
                        existing.iter().filter(|f| real.contains_key(**f) && !recreated(f)).filter_map(|f| before_births.get(*f)).min(),
                    ) {
                        if newest_removed > oldest_kept {
                            return fail("pruning removed a newer file and kept an older one", format!("step {si}: removed {:?}", removed));
                        }
                    }
                    for f in &removed {
                        files.remove(*f);
                    }
                }
            }
            files.entry(current.clone()).or_default();
        }
        if threads == 1 {
            files.get_mut(&current).unwrap().extend_from_slice(&payloads[0]);
        } else if rotates {
            // each payload is in the old or in the new file, whole and once
            for pl in &payloads {
                let in_new = real.get(&current).map(|c| contains(c, pl)).unwrap_or(false);
                let in_old = real.get(&old_file).map(|c| contains(c, pl)).unwrap_or(false);
                match (in_new, in_old) {
                    (true, false) => files.get_mut(&current).unwrap().extend_from_slice(pl),
                    (false, true) if files.contains_key(&old_file) => files.get_mut(&old_file).unwrap().extend_from_slice(pl),
                    // it went into the file being replaced and the file limit removed that file in
                    // this very rotation: removed by the limit, not lost by the appender
                    (false, false) if !files.contains_key(&old_file) && !real.contains_key(&old_file) => {
                        raced_into_pruned = true;
                    }
                    (false, false) => return fail("a buffer written while another thread rotated was lost", format!("step {si}: {:?}", String::from_utf8_lossy(pl))),
                    _ => return fail("a buffer written while another thread rotated was stored twice", format!("step {si}: {:?}", String::from_utf8_lossy(pl))),
                }
            }
        } else {
            for pl in &payloads {
                files.get_mut(&current).unwrap().extend_from_slice(pl);
            }
        }
        // compare (multi-threaded appends may interleave whole payloads in any order)
        let norm = |v: &Vec<u8>| -> Vec<String> {
            let s = String::from_utf8_lossy(v).to_string();
            let mut parts: Vec<String> = s.split_inclusive(']').map(|x| x.to_string()).collect();
            if threads > 1 {
                parts.sort();
            }
            parts
        };
        let rk: Vec<&String> = real.keys().collect();
        let mk: Vec<&String> = files.keys().collect();
        if rk != mk {
            let sig = if rk.len() > mk.len() && rotates {
                "a period boundary created more than one new file (or pruning kept too many)"
            } else if !rotates && rk.len() > mk.len() {
                "rotation although no period boundary was crossed"
            } else if rotates && !real.contains_key(&current) {
                "write after a period boundary did not land in the new period's file"
            } else {
                "directory contents differ from the model"
            };
            return fail(sig, format!("step {si} (t={t}, {:?}): files {:?}, expected {:?}", civil(t), rk, mk));
        }
        // the limit is promised for what a rotation leaves behind; a restart over a backlog (or
        // with a smaller limit) may exceed it until the new appender's first rotation
        if rotates {
            backlog = false;
        }
        if let (Some(k), false) = (limit, backlog) {
            if real.len() > k {
                return fail("more log files than the configured limit", format!("step {si}: {} files, limit {k}", real.len()));
            }
        }
        for (name, want) in &files {
            let got = &real[name];
            let same = if threads > 1 {
                let mut a = norm(got);
                let mut bb = norm(want);
                a.sort();
                bb.sort();
                a == bb
            } else {
                got == want
            };
            if !same {
                return fail("file contents differ (buffer lost, duplicated, torn or in the wrong period's file)", format!("step {si} (t={t}): file {name:?} holds {:?}, expected {:?}", String::from_utf8_lossy(got), String::from_utf8_lossy(want)));
            }
            if threads > 1 {
                // adopt the real interleaving as the model's byte string
            }
        }
        if threads > 1 {
            for (name, got) in &real {
                files.insert(name.clone(), got.clone());
            }
        }
    }
    let mut classes = vec![format!("{:?}", case.rot)];
    for (b, nme) in [(exact_or_multi, "exact_boundary_or_multi_period_jump"), (pruned, "pruning_triggered"), (backwards, "clock_stepped_back"), (concurrent_rotation, "threads_wrote_across_a_rotation"), (raced_into_pruned, "racing_write_into_pruned_file"), (restarted, "restart_over_existing_files")] {
        if b {
            classes.push(nme.into());
        }
    }
    Outcome::pass((boundaries >= 2 && exact_or_multi) || pruned, classes)
}

fn contains(hay: &[u8], needle: &[u8]) -> bool {
    hay.windows(needle.len()).any(|w| w == needle)
}

struct C16;
impl Property for C16 {
    type Case = Case;
    fn id(&self) -> &'static str {
        "C16"
    }
    fn isolation(&self) -> Isolation {
        Isolation::Thread
    }
    fn cases(&self, tier: Tier) -> u32 {
        tier.pick(30_000, 600_000)
    }
    fn strategy(&self, tier: Tier) -> BoxedStrategy<Case> {
        let lo = days_from_civil(1971, 1, 1);
        let hi = days_from_civil(9998, 1, 1);
        let start = prop_oneof![
            3 => (lo..hi, 0i64..86_400).prop_map(|(d, s)| d * 86_400 + s),
            // just before a month / year end or a leap day
            2 => (1971i64..9998, proptest::sample::select(vec![(12u32, 31u32), (2, 28), (2, 29), (1, 1), (3, 1), (6, 30)]), 86_340i64..86_400).prop_map(|(y, (m, d), s)| {
                let d = if m == 2 && d == 29 && !((y % 4 == 0 && y % 100 != 0) || y % 400 == 0) { 28 } else { d };
                days_from_civil(y, m, d) * 86_400 + s
            }),
            1 => Just(days_from_civil(1999, 12, 31) * 86_400 + 86_399),
        ];
        let dt = prop_oneof![
            2 => Just(Dt::Same),
            3 => (0i64..120).prop_map(Dt::Plus),
            1 => (0i64..100_000).prop_map(Dt::Plus),
            4 => (-1i64..=1).prop_map(Dt::Boundary),
            2 => (0u8..5, 0i64..60).prop_map(|(k, e)| Dt::Jump(k, e)),
            1 => (1i64..7200).prop_map(Dt::Back),
        ];
        let step = (dt, prop_oneof![3 => Just(1u8), 1 => 2u8..=6]).prop_map(|(dt, threads)| Step { dt, threads });
        let rot = prop_oneof![3 => Just(Rot::Minutely), 3 => Just(Rot::Hourly), 3 => Just(Rot::Daily), 1 => Just(Rot::Never)];
        let name = || proptest::option::weighted(0.6, "[a-z]{1,5}(\\.[a-z]{1,3})?");
        let max = tier.pick(14usize, 30usize);
        (rot, name(), name(), proptest::option::weighted(0.4, 1u8..=4), start, proptest::collection::vec(step, 1..max), proptest::option::weighted(0.3, (0u8..32, proptest::option::weighted(0.5, 1u8..=4)))).prop_map(|(rot, prefix, suffix, max_files, start, steps, restart)| Case { rot, prefix, suffix, max_files, start, steps, restart }).boxed()
    }
    fn run(&self, case: &Case) -> Outcome {
        run_case(case)
    }
    fn rule(&self) -> String {
        "case = rotation {minutely,hourly,daily,never} x optional prefix x optional suffix x optional file limit 1-4 x start instant in 1971..9998 (biased to the last minute of month/year ends, Feb 28/29, Y2K) x <=14 (thorough <=30) steps, each a clock step {same instant, +0..120 s, +0..100000 s, exactly to the next boundary -1/0/+1 s, 1-5 periods ahead, 1..7200 s backwards} and a write of a unique payload through Write, or through MakeWriter from 2-6 threads released by a barrier; in 30 % of the cases the appender is dropped before a generated step and a new one is built on the same directory (restart over existing files), possibly with a different file limit. non-trivial: >= 2 boundaries crossed including an exact-boundary or multi-period step, or pruning was triggered; distinct by case".into()
    }
    fn assumptions(&self) -> Vec<String> {
        vec![
            "trusts the cfg-guarded clock override tracing_appender::rolling::verif_clock (consulted by RollingFileAppender::now and the builder)".into(),
            "pruning order is judged by the same file birth times the code reads; equal birth times (coarse file-system clocks) are tolerated".into(),
            "concurrent MakeWriter writes at one instant: each payload must be in the old or the new file, whole and once; their relative order is not constrained; a payload that raced into the file being replaced is not counted as lost when the file limit removed that very file in the same rotation (the property allows both the landing place and the removal)".into(),
            "scratch directories live under harness/target/scratch/c16 and are removed after every case".into(),
        ]
    }
}

fn main() {
    assert_eq!(civil(0), (1970, 1, 1, 0, 0));
    assert_eq!(civil(951_782_400), (2000, 2, 29, 0, 0));
    vp_engine::main(C16)
}
