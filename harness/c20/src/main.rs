//! C20 — the default timestamp is the correct proleptic-Gregorian UTC time for every instant.
//!
//! Oracle: an independent days→civil conversion (Howard Hinnant's `civil_from_days`, done in
//! i128 so that it cannot overflow anywhere in the `SystemTime` range), RFC 3339 shape with
//! six fractional digits = nanos/1000 truncated.

use proptest::prelude::*;
use serde::{Deserialize, Serialize};
use std::time::{Duration, SystemTime, UNIX_EPOCH};
use vp_engine::runner::Rec;
use vp_engine::{Isolation, Outcome, Property, Tier};

#[derive(Clone, Debug, Serialize, Deserialize)]
struct Instant {
    /// whole seconds since the epoch, floor
    secs: i64,
    /// 0..1e9, added on top of `secs`
    nanos: u32,
}

fn to_system_time(i: &Instant) -> Option<SystemTime> {
    let base = if i.secs >= 0 {
        UNIX_EPOCH.checked_add(Duration::from_secs(i.secs as u64))?
    } else {
        UNIX_EPOCH.checked_sub(Duration::from_secs(i.secs.unsigned_abs()))?
    };
    base.checked_add(Duration::new(0, i.nanos))
}

/// Hinnant, "chrono-Compatible Low-Level Date Algorithms", civil_from_days.
fn civil_from_days(z: i128) -> (i128, u32, u32) {
    let z = z + 719_468;
    let era = z.div_euclid(146_097);
    let doe = z.rem_euclid(146_097); // [0, 146096]
    let yoe = (doe - doe / 1460 + doe / 36_524 - doe / 146_096) / 365; // [0, 399]
    let y = yoe + era * 400;
    let doy = doe - (365 * yoe + yoe / 4 - yoe / 100); // [0, 365]
    let mp = (5 * doy + 2) / 153; // [0, 11]
    let d = (doy - (153 * mp + 2) / 5 + 1) as u32;
    let m = if mp < 10 { mp + 3 } else { mp - 9 } as u32;
    (if m <= 2 { y + 1 } else { y }, m, d)
}

fn days_from_civil(y: i128, m: u32, d: u32) -> i128 {
    let y = if m <= 2 { y - 1 } else { y };
    let era = y.div_euclid(400);
    let yoe = y.rem_euclid(400);
    let mp = if m > 2 { m - 3 } else { m + 9 } as i128;
    let doy = (153 * mp + 2) / 5 + d as i128 - 1;
    let doe = yoe * 365 + yoe / 4 - yoe / 100 + doy;
    era * 146_097 + doe - 719_468
}

#[derive(Debug, PartialEq, Eq, PartialOrd, Ord, Clone)]
struct Civil {
    year: i128,
    month: u32,
    day: u32,
    hour: u32,
    min: u32,
    sec: u32,
    micros: u32,
}

fn expected(i: &Instant) -> Civil {
    let days = (i.secs as i128).div_euclid(86_400);
    let sod = (i.secs as i128).rem_euclid(86_400) as u32;
    let (year, month, day) = civil_from_days(days);
    Civil { year, month, day, hour: sod / 3600, min: sod / 60 % 60, sec: sod % 60, micros: i.nanos / 1000 }
}

/// Strict parse of the printed form. Years 0..=9999 must be exactly four digits (RFC 3339);
/// outside that range RFC 3339 has no form, so any optionally signed integer is accepted.
fn parse(s: &str) -> Result<Civil, String> {
    let b = s.as_bytes();
    if b.len() < 27 {
        return Err(format!("too short: {s:?}"));
    }
    let tail = &s[s.len() - 23..]; // -MM-DDTHH:MM:SS.ffffffZ
    let head = &s[..s.len() - 23];
    let tb = tail.as_bytes();
    let lit = |i: usize, c: u8| if tb[i] == c { Ok(()) } else { Err(format!("expected {:?} at tail[{i}] in {s:?}", c as char)) };
    lit(0, b'-')?;
    lit(3, b'-')?;
    lit(6, b'T')?;
    lit(9, b':')?;
    lit(12, b':')?;
    lit(15, b'.')?;
    lit(22, b'Z')?;
    let num = |r: std::ops::Range<usize>| -> Result<u32, String> {
        let t = &tail[r];
        if !t.bytes().all(|c| c.is_ascii_digit()) {
            return Err(format!("non-digit in {t:?} of {s:?}"));
        }
        t.parse::<u32>().map_err(|e| e.to_string())
    };
    let year: i128 = {
        let (neg, digits) = match head.as_bytes().first() {
            Some(b'+') => (false, &head[1..]),
            Some(b'-') => (true, &head[1..]),
            _ => (false, head),
        };
        if digits.is_empty() || !digits.bytes().all(|c| c.is_ascii_digit()) {
            return Err(format!("bad year {head:?} in {s:?}"));
        }
        let v: i128 = digits.parse().map_err(|_| format!("bad year {head:?}"))?;
        if neg { -v } else { v }
    };
    if (0..=9999).contains(&year) && (head.len() != 4 || !head.bytes().all(|c| c.is_ascii_digit())) {
        return Err(format!("year {year} not printed as four digits: {s:?}"));
    }
    Ok(Civil { year, month: num(1..3)?, day: num(4..6)?, hour: num(7..9)?, min: num(10..12)?, sec: num(13..15)?, micros: num(16..22)? })
}

fn format(i: &Instant) -> Option<String> {
    let t = to_system_time(i)?;
    let mut s = String::new();
    tracing_subscriber::fmt::time::__verif_format_system_time(t, &mut s).ok()?;
    Some(s)
}

fn is_leap(y: i128) -> bool {
    (y % 4 == 0 && y % 100 != 0) || y % 400 == 0
}

/// (verdict, nontrivial)
fn judge(i: &Instant) -> (Result<(), (String, String)>, bool) {
    let exp = expected(i);
    let sod = (i.secs as i128).rem_euclid(86_400);
    let nontrivial = (exp.month == 2 && exp.day == 29) || sod == 0 || sod == 86_399 || (i.secs < 0 && i.nanos != 0);
    let got = {
        let _q = vp_engine::quiet_panics();
        match std::panic::catch_unwind(|| format(i)) {
            Ok(Some(g)) => g,
            Ok(None) => return (Ok(()), false), // not representable as SystemTime on this platform
            Err(p) => return (Err(("panic".to_string(), format!("{i:?}: {}", vp_engine::payload_str(&*p)))), nontrivial),
        }
    };
    let r = match parse(&got) {
        Err(e) => Err(("shape".to_string(), format!("{i:?}: {e}"))),
        Ok(p) if p != exp => {
            let which = if (p.year, p.month, p.day) != (exp.year, exp.month, exp.day) {
                "date"
            } else if p.micros != exp.micros {
                "fraction"
            } else {
                "time-of-day"
            };
            Err((format!("wrong-{which}"), format!("{i:?}: printed {got:?}, expected {exp:?}")))
        }
        Ok(_) => Ok(()),
    };
    (r, nontrivial)
}

struct C20;

impl Property for C20 {
    type Case = Vec<Instant>;
    fn id(&self) -> &'static str {
        "C20"
    }
    fn isolation(&self) -> Isolation {
        Isolation::Pure
    }
    fn cases(&self, tier: Tier) -> u32 {
        tier.pick(200_000, 5_000_000)
    }
    fn strategy(&self, _tier: Tier) -> BoxedStrategy<Self::Case> {
        let lo = days_from_civil(1, 1, 1) as i64 * 86_400;
        let hi = days_from_civil(10_000, 1, 1) as i64 * 86_400;
        let secs = prop_oneof![
            3 => any::<i64>(),
            4 => lo..hi,
            // near a day boundary somewhere in the common era
            3 => ((lo / 86_400)..(hi / 86_400), -2i64..3).prop_map(|(d, off)| d * 86_400 + off),
            // near a year boundary, any year in -20000..30000
            3 => (-20_000i128..30_000, -2i64..3).prop_map(|(y, off)| days_from_civil(y, 1, 1) as i64 * 86_400 + off),
            // around Feb 28/29/Mar 1 of any year
            3 => (-20_000i128..30_000, 0i64..3, 0i64..86_400).prop_map(|(y, d, s)| (days_from_civil(y, 2, 28) as i64 + d) * 86_400 + s),
            1 => -200_000i64..200_000,
        ];
        let nanos = prop_oneof![
            2 => Just(0u32),
            1 => Just(1u32),
            1 => Just(999u32),
            1 => Just(1000u32),
            1 => Just(999_999u32),
            1 => Just(999_999_999u32),
            1 => Just(500_000u32),
            1 => Just(999_999_500u32),
            4 => 0u32..1_000_000_000,
        ];
        // a case is a short list of instants; they are also checked for ordered output
        proptest::collection::vec((secs, nanos).prop_map(|(secs, nanos)| Instant { secs, nanos }), 1..4).boxed()
    }
    fn run(&self, case: &Self::Case) -> Outcome {
        let mut nt = false;
        let mut classes = vec![];
        for i in case {
            let (r, n) = judge(i);
            nt |= n;
            if let Err((sig, detail)) = r {
                return Outcome::fail(sig, detail);
            }
            if i.secs < 0 {
                classes.push("pre_epoch".to_string());
            }
            let y = expected(i).year;
            if !(1..=9999).contains(&y) {
                classes.push("year_outside_0001_9999".to_string());
            }
        }
        // ordering: sorted instants print in non-decreasing order (as parsed tuples; and as
        // plain strings inside 0000..9999 where RFC 3339 text order is time order)
        let mut sorted: Vec<&Instant> = case.iter().collect();
        sorted.sort_by_key(|i| (i.secs, i.nanos));
        let mut prev: Option<(Civil, String, i128)> = None;
        for i in sorted {
            let Some(s) = format(i) else { continue };
            let Ok(p) = parse(&s) else { continue };
            let y = p.year;
            if let Some((pp, ps, py)) = &prev {
                if *pp > p {
                    return Outcome::fail("order", format!("{ps} printed before {s} for increasing instants"));
                }
                if (0..=9999).contains(py) && (0..=9999).contains(&y) && ps.as_str() > s.as_str() {
                    return Outcome::fail("order-text", format!("{ps} > {s} textually"));
                }
            }
            prev = Some((p, s, y));
        }
        classes.sort();
        classes.dedup();
        Outcome::pass(nt, classes)
    }
    fn rule(&self) -> String {
        "enumeration: every day 0001-01-01..9999-12-31 at 00:00:00.000000000, 12:34:56.789012345 and 23:59:59.999999999; every year boundary -1000..11000 +-2 s; every second in +-2 h windows around the epoch and selected year/leap-day/century/400-year boundaries (with fractions 0, 1 ns, 999999999 ns). generated: lists of 1-3 instants over the whole i64-second SystemTime range biased to day/year boundaries and Feb 28-Mar 1. non-trivial: instant on a leap day, at the first or last second of a day, or before 1970 with a non-zero fraction; distinct by (secs,nanos)".into()
    }
    fn assumptions(&self) -> Vec<String> {
        vec![
            "hook __verif_format_system_time is `write!(w, \"{}\", DateTime::from(t))`, the production path minus SystemTime::now()".into(),
            "outside years 0000..9999 RFC 3339 defines no form; the year is then compared numerically (sign/padding tolerated)".into(),
            "oracle: Hinnant civil_from_days in i128".into(),
        ]
    }
    fn exhaustive(&self, _tier: Tier) -> bool {
        true
    }
    fn enumerate(&self, tier: Tier, shard: u32, of: u32, rec: &mut Rec<'_, Self>) {
        let first = days_from_civil(1, 1, 1);
        let last = days_from_civil(9999, 12, 31);
        let times: [(i64, u32); 3] = [(0, 0), (12 * 3600 + 34 * 60 + 56, 789_012_345), (86_399, 999_999_999)];
        let mut n = 0u64;
        let mut nt = 0u64;
        let mut check = |rec: &mut Rec<'_, Self>, i: Instant, n: &mut u64, nt: &mut u64| {
            let (r, nontriv) = judge(&i);
            *n += 1;
            if nontriv {
                *nt += 1;
            }
            if let Err((sig, detail)) = r {
                rec.violation(&vec![i], &sig, &detail);
                return false;
            }
            rec.violations() == 0
        };
        // complete day sweep, sharded by day index
        let mut d = first + shard as i128;
        let mut bad = 0;
        while d <= last && bad < 3 {
            for (s, ns) in times {
                if !check(rec, Instant { secs: d as i64 * 86_400 + s, nanos: ns }, &mut n, &mut nt) {
                    bad += 1;
                }
            }
            d += of as i128;
        }
        rec.bulk(n, nt, "day_sweep_0001_9999");
        rec.sample(serde_json::json!({"sweep": "every day 0001-01-01..9999-12-31 x 3 times of day", "example": format(&Instant{secs: last as i64*86_400+86_399, nanos: 999_999_999})}));
        // year boundaries
        let (mut n, mut nt) = (0u64, 0u64);
        let mut y = -1000 + shard as i128;
        while y <= 11_000 && rec.violations() == 0 {
            let b = days_from_civil(y, 1, 1) as i64 * 86_400;
            for off in -2..=2i64 {
                for ns in [0u32, 999_999_999] {
                    check(rec, Instant { secs: b + off, nanos: ns }, &mut n, &mut nt);
                }
            }
            y += of as i128;
        }
        rec.bulk(n, nt, "year_boundaries");
        // dense windows: every second in +-2h (quick: +-20 min)
        let half: i64 = tier.pick(1200, 7200);
        let centers: Vec<i64> = [
            (1970, 1, 1), (2000, 1, 1), (2000, 3, 1), (1900, 3, 1), (1900, 1, 1), (2100, 3, 1), (2400, 3, 1), (1600, 3, 1),
            (2024, 3, 1), (2023, 3, 1), (1, 1, 1), (10_000, 1, 1), (0, 1, 1), (0, 3, 1), (-1, 1, 1), (-400, 3, 1), (1969, 12, 31),
            (2038, 1, 19), (1582, 10, 15), (2000, 2, 29), (1972, 7, 1),
        ]
        .iter()
        .map(|&(y, m, d)| days_from_civil(y, m, d) as i64 * 86_400)
        .collect();
        let (mut n, mut nt) = (0u64, 0u64);
        for (ci, c) in centers.iter().enumerate() {
            if ci as u32 % of != shard {
                continue;
            }
            if rec.violations() > 0 {
                break;
            }
            for off in -half..=half {
                for ns in [0u32, 1, 999_999_999] {
                    check(rec, Instant { secs: c + off, nanos: ns }, &mut n, &mut nt);
                }
            }
        }
        rec.bulk(n, nt, "dense_windows");
        // extremes of the representable range
        if shard == 0 {
            let (mut n, mut nt) = (0u64, 0u64);
            for secs in [i64::MAX, i64::MAX - 1, i64::MIN, i64::MIN + 1, i64::MIN + 86_400, 0, -1, 1] {
                for ns in [0u32, 1, 999_999_999] {
                    check(rec, Instant { secs, nanos: ns }, &mut n, &mut nt);
                }
            }
            rec.bulk(n, nt, "range_extremes");
        }
    }
}

fn main() {
    // self-check of the oracle's two halves against each other (pure arithmetic)
    for d in [-1_000_000i128, -719_468, -1, 0, 1, 11_016, 19_000, 2_932_896, 1 << 40] {
        let (y, m, dd) = civil_from_days(d);
        assert_eq!(days_from_civil(y, m, dd), d);
    }
    assert_eq!(civil_from_days(0), (1970, 1, 1));
    assert_eq!(civil_from_days(11_016), (2000, 2, 29));
    assert!(is_leap(2000) && !is_leap(1900));
    vp_engine::main(C20)
}
