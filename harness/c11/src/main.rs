//! C11 — filter directives: the most specific matching directive decides; Targets and
//! EnvFilter agree; would_enable agrees with filtering; Display/parse round-trips; span-scoped
//! directives raise the level exactly while a matching span is entered.
//!
//! Directive *ASTs* are generated and printed to strings from the documented grammar
//! `target[span{field=value}]=level`; the reference semantics work on the AST:
//!   static: longest matching target prefix wins, equal targets: the later entry replaces the
//!           earlier, no match = disabled;
//!   span-scoped: an entered span contributes the highest level of the directives that name it
//!           (target prefix, span name, field present) and whose field value, if any, equals the
//!           value recorded before the span was entered.
//! Everything is exercised through `Dispatch` on 90 static metadata (6 targets with shared
//! prefixes x 5 levels x event/span alpha{x,y}/span beta) the way the macros would
//! (hint, interest, enabled, dispatch).

mod universe;

use proptest::prelude::*;
use serde::{Deserialize, Serialize};
use tracing_core::field::Value;
use tracing_core::{span, Dispatch, Event};
use tracing_subscriber::filter::{EnvFilter, Targets};
use tracing_subscriber::registry::Registry;
use tracing_subscriber::subscribe::{CollectExt, Subscribe};
use universe::{METAS, N, TARGETS};
use vp_engine::runner::Rec;
use vp_engine::{kf, Isolation, Outcome, Property, Tier};
use vp_sub::{LKind, LeafLog, RecLeaf};

const NAMES: [&str; 6] = ["off", "error", "warn", "info", "debug", "trace"];
/// targets usable in directives: the universe's targets plus partial prefixes and a stranger
const DIR_TARGETS: [&str; 9] = ["app", "application", "app::db", "app::db::pool", "other", "o", "ap", "app::d", "zzz"];
const NSLOT: usize = 3;

#[derive(Clone, Copy, Debug, Serialize, Deserialize, PartialEq)]
enum Spell {
    Lower,
    Upper,
    Mixed(u8),
    Digit,
}
#[derive(Clone, Debug, Serialize, Deserialize, PartialEq)]
struct SDir {
    /// None = bare level
    target: Option<u8>,
    level: u8,
    spell: Spell,
    /// bare target (`app`), which means TRACE
    bare_target: bool,
}
#[derive(Clone, Copy, Debug, Serialize, Deserialize, PartialEq)]
enum Val {
    B(bool),
    U(u64),
    /// in a directive: the pattern PATS[i % 8]; recorded: the text RVALS[i % 8], as a str for
    /// i < 8 and through a Debug impl that prints the bare text for i >= 8
    S(u8),
}
/// value patterns (regular expressions matched against the whole value) ...
const PATS: [&str; 8] = ["bob", "b.b", "bob|jim", "(jim)?bob", "bo+b", "jim", "bob", "bo"];
/// ... and recorded texts; none of the patterns matches "true", "false" or a number, so a
/// pattern never matches a bool / integer value under either reading of the documentation
const RVALS: [&str; 8] = ["bob", "bxb", "jim", "jimbob", "boob", "jim", "not-bob", "bobby"];
struct Bare(&'static str);
impl std::fmt::Debug for Bare {
    fn fmt(&self, f: &mut std::fmt::Formatter<'_>) -> std::fmt::Result {
        f.write_str(self.0)
    }
}
/// does a span whose field holds `r` satisfy the directive's value matcher `d`?
fn val_matches(d: Val, r: Val) -> bool {
    match (d, r) {
        (Val::B(a), Val::B(b)) => a == b,
        (Val::U(a), Val::U(b)) => a == b,
        (Val::S(p), Val::S(v)) => {
            static RE: std::sync::OnceLock<Vec<regex::Regex>> = std::sync::OnceLock::new();
            let res = RE.get_or_init(|| PATS.iter().map(|p| regex::Regex::new(&format!("^(?:{p})$")).unwrap()).collect());
            res[p as usize % 8].is_match(RVALS[v as usize % 8])
        }
        _ => false,
    }
}
#[derive(Clone, Debug, Serialize, Deserialize, PartialEq)]
struct DDir {
    target: Option<u8>,
    /// 0 = alpha, 1 = beta
    span: Option<u8>,
    /// (0 = x | 1 = y, value matcher)
    field: Option<(u8, Option<Val>)>,
    /// 1..=5
    level: u8,
    /// a second value matcher, on the other field (only together with a value matcher in
    /// `field`): `[alpha{x=1,y=true}]`; such a directive can only be given through
    /// Directive::from_str + add_directive (F13: strings are split on every comma)
    #[serde(default)]
    field2: Option<Val>,
}
#[derive(Clone, Debug, Serialize, Deserialize, PartialEq)]
enum Op {
    Open { slot: u8, name: u8, target: u8, x: Option<Val>, y: Option<Val> },
    Record { slot: u8, field: u8, v: Val },
    Enter { slot: u8 },
    Exit,
    Close { slot: u8 },
    Event { level: u8, target: u8 },
    /// a span of arbitrary level is created and dropped (the "for that span itself" clause)
    ProbeSpan { level: u8, target: u8, name: u8 },
}
#[derive(Clone, Debug, Serialize, Deserialize, PartialEq)]
struct FDir {
    /// index into FD_TARGETS, None = no target
    target: Option<u8>,
    /// distinct indices into FD_FIELDS (may be empty: a plain `target=level` directive)
    fields: Vec<u8>,
    level: u8,
}
#[derive(Clone, Debug, Serialize, Deserialize)]
enum Case {
    Static { dirs: Vec<SDir> },
    Dynamic {
        sdirs: Vec<SDir>,
        ddirs: Vec<DDir>,
        as_filter: bool,
        ops: Vec<Op>,
        /// which constructor builds the filter from the string (see `build_env`)
        #[serde(default)]
        ctor: u8,
        /// the builder's default directive (constructors 3 and 4)
        #[serde(default)]
        dflt: Option<SDir>,
        /// a plain accept-everything layer with `sometimes` interest on top of the stack
        #[serde(default)]
        under_dyn: bool,
    },
    /// replay-only: a raw directive string given to both parsers (known findings F9/F13)
    Raw { dirs: String },
    /// one raw `target[{f1,f2}]=level` directive through `Directive::from_str` + add_directive
    RawDirective { dirs: String },
    /// bytes selecting grammar tokens (also the input format of the coverage-guided stage)
    Tokens { data: Vec<u8> },
    /// static directives with field-name lists (`target[{a,b}]=level`), given to an EnvFilter one by
    /// one through `Directive::from_str` + `add_directive`, judged on events that declare several
    /// fields: among the matching directives the longest target, then the larger field list wins
    FieldDirs { dirs: Vec<FDir> },
}

fn spell(level: u8, s: Spell) -> String {
    let n = NAMES[level as usize];
    match s {
        Spell::Lower => n.to_string(),
        Spell::Upper => n.to_uppercase(),
        Spell::Mixed(m) => n.chars().enumerate().map(|(i, c)| if m >> (i % 8) & 1 == 1 { c.to_ascii_uppercase() } else { c }).collect(),
        Spell::Digit => level.to_string(),
    }
}
impl SDir {
    fn eff_level(&self) -> u8 {
        if self.bare_target && self.target.is_some() {
            5
        } else {
            self.level
        }
    }
    fn render(&self) -> String {
        match self.target {
            None => spell(self.level, self.spell),
            Some(t) if self.bare_target => DIR_TARGETS[t as usize % 9].to_string(),
            Some(t) => format!("{}={}", DIR_TARGETS[t as usize % 9], spell(self.level, self.spell)),
        }
    }
}
fn val_str(v: Val) -> String {
    match v {
        Val::B(b) => b.to_string(),
        Val::U(u) => u.to_string(),
        Val::S(i) => PATS[i as usize % 8].to_string(),
    }
}
impl DDir {
    /// the second value matcher, if the first one is a value matcher too
    fn two(&self) -> Option<Val> {
        match self.field {
            Some((_, Some(_))) => self.field2,
            _ => None,
        }
    }
    fn render(&self) -> String {
        let mut s = String::new();
        if let Some(t) = self.target {
            s.push_str(DIR_TARGETS[t as usize % 9]);
        }
        s.push('[');
        if let Some(n) = self.span {
            s.push_str(["alpha", "beta"][n as usize % 2]);
        }
        if let Some((f, v)) = self.field {
            s.push('{');
            s.push_str(["x", "y"][f as usize % 2]);
            if let Some(v) = v {
                s.push('=');
                s.push_str(&val_str(v));
                if let Some(v2) = self.field2 {
                    s.push(',');
                    s.push_str(["y", "x"][f as usize % 2]);
                    s.push('=');
                    s.push_str(&val_str(v2));
                }
            }
            s.push('}');
        }
        s.push(']');
        s.push('=');
        s.push_str(NAMES[self.level as usize]);
        s
    }
    /// does the directive name this span callsite?
    fn cares(&self, target: &str, name: &str) -> bool {
        if let Some(t) = self.target {
            if !target.starts_with(DIR_TARGETS[t as usize % 9]) {
                return false;
            }
        }
        if let Some(n) = self.span {
            if ["alpha", "beta"][n as usize % 2] != name {
                return false;
            }
        }
        if self.field.is_some() && name != "alpha" {
            return false; // only alpha declares x and y
        }
        true
    }
}

/// reference: static directives
fn static_enabled(dirs: &[SDir], level: u8, target: &str) -> bool {
    let mut best: Option<(i32, u8)> = None;
    for d in dirs {
        let (len, ok) = match d.target {
            None => (-1, true),
            Some(t) => {
                let p = DIR_TARGETS[t as usize % 9];
                (p.len() as i32, target.starts_with(p))
            }
        };
        if !ok {
            continue;
        }
        match best {
            Some((l, _)) if l > len => {}
            _ => best = Some((len, d.eff_level())),
        }
    }
    matches!(best, Some((_, l)) if level <= l)
}

fn rank_of(i: usize) -> u8 {
    vp_rec::rank(METAS[i].level())
}
fn meta_index(level: u8, target: &str, name: &str) -> usize {
    (0..N).find(|i| rank_of(*i) == level && METAS[*i].target() == target && METAS[*i].name() == name).unwrap()
}

struct Stack {
    d: Dispatch,
    log: LeafLog,
    hint: Option<u8>,
    interest: Vec<u8>, // 0 never 1 sometimes 2 always
}
enum Place {
    GlobalLayer,
    PerLayerFilter,
    /// as the two above, with a plain layer on top (outermost) that accepts everything but
    /// answers `sometimes` to every callsite (a `dynamic_filter_fn` used as a layer)
    GlobalLayerUnderDyn,
    PerLayerFilterUnderDyn,
}
/// a plain layer that accepts everything but answers `sometimes` to every callsite
struct Sometimes;
impl<C: tracing_core::Collect> tracing_subscriber::Subscribe<C> for Sometimes {
    fn register_callsite(&self, _: &'static tracing_core::Metadata<'static>) -> tracing_core::Interest {
        tracing_core::Interest::sometimes()
    }
    fn enabled(&self, _: &tracing_core::Metadata<'_>, _: tracing_subscriber::subscribe::Context<'_, C>) -> bool {
        true
    }
}
fn accept_all_dynamically() -> Sometimes {
    Sometimes
}
fn stack_targets(t: Targets, place: Place) -> Stack {
    let log: LeafLog = Default::default();
    let leaf = RecLeaf::new(log.clone());
    match place {
        Place::GlobalLayer => finish(Registry::default().with(leaf).with(t), log),
        Place::PerLayerFilter => finish(Registry::default().with(leaf.with_filter(t)), log),
        Place::GlobalLayerUnderDyn => finish(Registry::default().with(leaf).with(t).with(accept_all_dynamically()), log),
        Place::PerLayerFilterUnderDyn => finish(Registry::default().with(leaf.with_filter(t)).with(accept_all_dynamically()), log),
    }
}
fn stack_env(e: EnvFilter, place: Place) -> Stack {
    let log: LeafLog = Default::default();
    let leaf = RecLeaf::new(log.clone());
    match place {
        Place::GlobalLayer => finish(Registry::default().with(leaf).with(e), log),
        Place::PerLayerFilter => finish(Registry::default().with(leaf.with_filter(e)), log),
        Place::GlobalLayerUnderDyn => finish(Registry::default().with(leaf).with(e).with(accept_all_dynamically()), log),
        Place::PerLayerFilterUnderDyn => finish(Registry::default().with(leaf.with_filter(e)).with(accept_all_dynamically()), log),
    }
}
fn finish<C: tracing_core::Collect + Send + Sync + 'static>(c: C, log: LeafLog) -> Stack {
    let hint = tracing_core::Collect::max_level_hint(&c).map(|h| h.into_level().map(|l| vp_rec::rank(&l)).unwrap_or(0));
    let d = Dispatch::new(c);
    let interest = (0..N)
        .map(|i| {
            let x = d.register_callsite(&METAS[i]);
            if x.is_never() {
                0
            } else if x.is_always() {
                2
            } else {
                1
            }
        })
        .collect();
    Stack { d, log, hint, interest }
}
impl Stack {
    /// what the macros do before dispatching
    fn gate(&self, i: usize) -> bool {
        if let Some(h) = self.hint {
            if rank_of(i) > h {
                return false;
            }
        }
        match self.interest[i] {
            0 => false,
            2 => true,
            _ => self.d.enabled(&METAS[i]),
        }
    }
    fn event(&self, i: usize) -> bool {
        self.log.lock().unwrap().clear();
        if !self.gate(i) {
            return false;
        }
        let m = &METAS[i];
        let fs = m.fields();
        let cs_f = fs.field("cs").unwrap();
        let v = i as u64;
        let vals = [(&cs_f, Some(&v as &dyn Value))];
        let vs = fs.value_set(&vals);
        self.d.event(&Event::new(m, &vs));
        let got = self.log.lock().unwrap().iter().any(|c| c.kind == LKind::Event);
        got
    }
    fn new_span(&self, i: usize, x: Option<Val>, y: Option<Val>) -> Option<span::Id> {
        self.log.lock().unwrap().clear();
        if !self.gate(i) {
            return None;
        }
        let m = &METAS[i];
        let fs = m.fields();
        let cs_f = fs.field("cs").unwrap();
        let v = i as u64;
        let id = if let (Some(xf), Some(yf)) = (fs.field("x"), fs.field("y")) {
            let (xb, xu, yb, yu, xs, ys, xd, yd);
            let xv: Option<&dyn Value> = match x {
                Some(Val::B(b)) => {
                    xb = b;
                    Some(&xb)
                }
                Some(Val::U(u)) => {
                    xu = u;
                    Some(&xu)
                }
                Some(Val::S(i)) if i % 16 < 8 => {
                    xs = RVALS[i as usize % 8];
                    Some(&xs)
                }
                Some(Val::S(i)) => {
                    xd = tracing_core::field::debug(Bare(RVALS[i as usize % 8]));
                    Some(&xd)
                }
                None => None,
            };
            let yv: Option<&dyn Value> = match y {
                Some(Val::B(b)) => {
                    yb = b;
                    Some(&yb)
                }
                Some(Val::U(u)) => {
                    yu = u;
                    Some(&yu)
                }
                Some(Val::S(i)) if i % 16 < 8 => {
                    ys = RVALS[i as usize % 8];
                    Some(&ys)
                }
                Some(Val::S(i)) => {
                    yd = tracing_core::field::debug(Bare(RVALS[i as usize % 8]));
                    Some(&yd)
                }
                None => None,
            };
            let vals = [(&cs_f, Some(&v as &dyn Value)), (&xf, xv), (&yf, yv)];
            let vs = fs.value_set(&vals);
            self.d.new_span(&span::Attributes::new(m, &vs))
        } else {
            let vals = [(&cs_f, Some(&v as &dyn Value))];
            let vs = fs.value_set(&vals);
            self.d.new_span(&span::Attributes::new(m, &vs))
        };
        Some(id)
    }
    fn leaf_saw_new_span(&self) -> bool {
        self.log.lock().unwrap().iter().any(|c| c.kind == LKind::NewSpan)
    }
}

fn fail(sig: &str, detail: String) -> Outcome {
    Outcome::fail(sig, detail)
}

fn run_static(dirs: &[SDir]) -> Outcome {
    let s: String = dirs.iter().map(|d| d.render()).collect::<Vec<_>>().join(",");
    let t = match s.parse::<Targets>() {
        Ok(t) => t,
        Err(e) => return fail("Targets rejects a string of the documented grammar", format!("{s:?}: {e}")),
    };
    let e = match EnvFilter::try_new(&s) {
        Ok(e) => e,
        Err(e) => return fail("EnvFilter rejects a string of the documented grammar", format!("{s:?}: {e}")),
    };
    let _g = tracing_core::dispatch::set_default(&Dispatch::none());
    // round trips
    let shown = t.to_string();
    match shown.parse::<Targets>() {
        Ok(t2) => {
            // (`==` also compares the cached max level, which only ever grows when a directive is
            // replaced; the observable filter is compared instead)
            let same = t2.to_string() == shown && (0..N).all(|i| t2.would_enable(METAS[i].target(), METAS[i].level()) == t.would_enable(METAS[i].target(), METAS[i].level()));
            let dup = dirs.iter().enumerate().any(|(i, a)| dirs.iter().skip(i + 1).any(|b| a.target == b.target));
            if !same || (!dup && t2 != t) {
                return fail("Targets does not round-trip through Display", format!("{s:?} -> {shown:?} -> {:?}", t2.to_string()));
            }
        }
        Err(e) => return fail("Targets cannot parse its own Display output", format!("{shown:?}: {e}")),
    }
    let eshown = e.to_string();
    let e2 = match EnvFilter::try_new(&eshown) {
        Ok(e2) => e2,
        Err(er) => return fail("EnvFilter cannot parse its own Display output", format!("{eshown:?}: {er}")),
    };
    if e2.to_string() != eshown {
        return fail("EnvFilter does not round-trip through Display", format!("{s:?} -> {eshown:?} -> {:?}", e2.to_string()));
    }
    // programmatic construction is the same filter
    let mut prog = Targets::new();
    for d in dirs {
        match d.target {
            None => prog = prog.with_default(vp_rec::filter_of_rank(d.eff_level())),
            Some(tg) => prog = prog.with_target(DIR_TARGETS[tg as usize % 9], vp_rec::filter_of_rank(d.eff_level())),
        }
    }
    if prog.to_string() != t.to_string() {
        return fail("parsed Targets differs from the same table built with with_target", format!("{s:?}: parsed {t}, built {prog}"));
    }
    let stacks = [
        ("Targets as global layer", stack_targets(t.clone(), Place::GlobalLayer)),
        ("Targets as per-layer filter", stack_targets(t.clone(), Place::PerLayerFilter)),
        ("EnvFilter as global layer", stack_env(e, Place::GlobalLayer)),
        ("EnvFilter as per-layer filter", stack_env(EnvFilter::try_new(&s).unwrap(), Place::PerLayerFilter)),
        ("EnvFilter reparsed from its Display output", stack_env(e2, Place::GlobalLayer)),
    ];
    let mut ambiguous = false;
    for i in 0..N {
        let m = &METAS[i];
        let lvl = rank_of(i);
        let want = static_enabled(dirs, lvl, m.target());
        let matching = dirs.iter().filter(|d| d.target.map(|t| m.target().starts_with(DIR_TARGETS[t as usize % 9])).unwrap_or(true)).count();
        if matching >= 2 {
            ambiguous = true;
        }
        let we = t.would_enable(m.target(), m.level());
        if we != want {
            return fail("Targets::would_enable disagrees with the most specific directive", format!("{s:?}: would_enable({:?}, {}) = {we}, reference {want}", m.target(), m.level()));
        }
        for (what, st) in stacks.iter() {
            let _g = tracing_core::dispatch::set_default(&st.d);
            let got = if m.is_span() {
                match st.new_span(i, None, None) {
                    Some(id) => {
                        let saw = st.leaf_saw_new_span();
                        st.d.try_close(id);
                        saw
                    }
                    None => false,
                }
            } else {
                st.event(i)
            };
            if got != want {
                return fail(
                    &format!("{what}: delivery disagrees with the most specific directive"),
                    format!("{s:?}: {} {:?} level {} target {:?}: delivered {got}, reference {want} (interest {} hint {:?})", if m.is_span() { "span" } else { "event" }, m.name(), m.level(), m.target(), st.interest[i], st.hint),
                );
            }
        }
    }
    let dup = dirs.iter().enumerate().any(|(i, a)| dirs.iter().skip(i + 1).any(|b| a.target == b.target));
    let mut classes = vec![];
    if dup {
        classes.push("duplicate_target".to_string());
    }
    if dirs.iter().any(|d| matches!(d.spell, Spell::Digit)) {
        classes.push("level_by_digit".into());
    }
    if dirs.iter().any(|d| d.bare_target && d.target.is_some()) {
        classes.push("bare_target".into());
    }
    Outcome::pass(ambiguous && (dup || dirs.len() >= 2), classes)
}

/// The ways a directive string becomes an EnvFilter. A default directive (ERROR for `new` / `From`,
/// the builder's otherwise) is documented to apply only when the string holds no directive at all.
/// Returns the filter and the default directive that constructor carries.
fn build_env(s: &str, ctor: u8, dflt: &Option<SDir>) -> Result<(EnvFilter, Option<SDir>, &'static str), String> {
    let error = SDir { target: None, level: 1, spell: Spell::Lower, bare_target: false };
    let d = dflt.clone().unwrap_or_else(|| error.clone());
    let dd = || d.render().parse::<tracing_subscriber::filter::Directive>().map_err(|e| format!("default directive {:?}: {e}", d.render()));
    Ok(match ctor % 6 {
        0 => (EnvFilter::try_new(s).map_err(|e| e.to_string())?, None, "EnvFilter::try_new"),
        1 => (EnvFilter::new(s), Some(error), "EnvFilter::new"),
        2 => (EnvFilter::from(s), Some(error), "EnvFilter::from"),
        3 => (EnvFilter::builder().with_default_directive(dd()?).parse(s).map_err(|e| e.to_string())?, Some(d), "Builder::with_default_directive + parse"),
        4 => {
            // an invalid directive is skipped by the lossy parser
            let lossy = if s.is_empty() { "zz=loud".to_string() } else { format!("{s},zz=loud") };
            (EnvFilter::builder().with_default_directive(dd()?).parse_lossy(lossy), Some(d), "Builder::with_default_directive + parse_lossy (one invalid directive appended)")
        }
        _ => (s.parse::<EnvFilter>().map_err(|e| e.to_string())?, None, "str::parse::<EnvFilter>"),
    })
}

fn run_dynamic(sdirs_in: &[SDir], ddirs_in: &[DDir], as_filter: bool, ops: &[Op], ctor: u8, dflt: &Option<SDir>, under_dyn: bool) -> Outcome {
    let multi = ddirs_in.iter().any(|d| d.two().is_some());
    let ctor = if multi { 0 } else { ctor % 6 };
    // the model's static directives: the given ones, or the constructor's default directive when
    // the string holds no directive at all
    let carried = match ctor { 1 | 2 => Some(SDir { target: None, level: 1, spell: Spell::Lower, bare_target: false }), 3 | 4 => Some(dflt.clone().unwrap_or(SDir { target: None, level: 1, spell: Spell::Lower, bare_target: false })), _ => None };
    let model_sdirs: Vec<SDir> = if sdirs_in.is_empty() && ddirs_in.is_empty() { carried.into_iter().collect() } else { sdirs_in.to_vec() };
    let sdirs_given = sdirs_in;
    let sdirs = &model_sdirs[..];
    // identical (target, span, field matcher) directives: the later entry replaces the earlier
    let mut ddirs: Vec<DDir> = vec![];
    for d in ddirs_in {
        let key = |d: &DDir| (d.target.map(|t| t % 9), d.span.map(|s| s % 2), d.field.map(|(f, v)| (f % 2, v.map(val_str))), d.two().map(val_str));
        if let Some(p) = ddirs.iter().position(|x| key(x) == key(d)) {
            ddirs[p] = d.clone();
        } else {
            ddirs.push(d.clone());
        }
    }
    let ddirs = &ddirs[..];
    let s: String = sdirs_given.iter().map(|d| d.render()).chain(ddirs_in.iter().map(|d| d.render())).collect::<Vec<_>>().join(",");
    let mut how = "EnvFilter::try_new";
    let e = if multi {
        // a directive with two value matchers contains a comma: it is added on its own
        let mut e = match EnvFilter::try_new(sdirs_given.iter().map(|d| d.render()).collect::<Vec<_>>().join(",")) {
            Ok(e) => e,
            Err(e) => return fail("EnvFilter rejects a string of the documented grammar", format!("{s:?}: {e}")),
        };
        if sdirs_given.is_empty() {
            e = EnvFilter::try_new("off").unwrap();
        }
        for d in ddirs_in {
            match d.render().parse::<tracing_subscriber::filter::Directive>() {
                Ok(p) => e = e.add_directive(p),
                Err(er) => return fail("Directive rejects a string of the documented grammar", format!("{:?}: {er}", d.render())),
            }
        }
        e
    } else {
        match build_env(&s, ctor, dflt) {
            Ok((e, _, h)) => {
                how = h;
                e
            }
            Err(e) => return fail("EnvFilter rejects a string of the documented grammar", format!("{s:?} (constructor {ctor}): {e}")),
        }
    };
    // Display round trip keeps behaviour: run the same history against the reparsed filter too
    let e2 = match EnvFilter::try_new(if multi { "off".to_string() } else { e.to_string() }) {
        Ok(e2) => e2,
        Err(er) => return fail("EnvFilter cannot parse its own Display output", format!("{:?}: {er}", e.to_string())),
    };
    let place = || match (as_filter, under_dyn) {
        (true, false) => Place::PerLayerFilter,
        (false, false) => Place::GlobalLayer,
        (true, true) => Place::PerLayerFilterUnderDyn,
        (false, true) => Place::GlobalLayerUnderDyn,
    };
    let mut nontrivial = false;
    let mut classes: Vec<String> = vec![];
    if under_dyn {
        classes.push("under_a_sometimes_layer".into());
    }
    if (1..=4).contains(&ctor) {
        classes.push(if sdirs_given.is_empty() && ddirs_in.is_empty() { "constructor_default_directive_applies".into() } else if sdirs_given.is_empty() { "constructor_default_directive_with_span_only_string".into() } else { "constructor_default_directive_unused".into() });
    }
    let s = format!("{s} [via {how}]");
    let mut variants = vec![("parsed", stack_env(e, place()))];
    if !multi {
        // (a two-matcher directive does not survive the comma split of a filter string: F13)
        variants.push(("reparsed from Display", stack_env(e2, place())));
    }
    for (which, st) in variants {
        let _g = tracing_core::dispatch::set_default(&st.d);
        // model
        #[derive(Clone)]
        struct MS {
            id: Option<span::Id>,
            target: &'static str,
            name: &'static str,
            x: Option<Val>,
            y: Option<Val>,
            contrib_at_enter: u8,
            invisible: bool,
        }
        let mut slots: Vec<Option<MS>> = vec![None; NSLOT];
        let mut entered: Vec<usize> = vec![];
        let contrib = |ms: &MS| -> u8 {
            ddirs
                .iter()
                .filter(|d| d.cares(ms.target, ms.name))
                .filter(|d| match d.field {
                    Some((f, Some(v))) => (if f % 2 == 0 { ms.x } else { ms.y }).map_or(false, |r| val_matches(v, r)) && d.two().map(|v2| (if f % 2 == 0 { ms.y } else { ms.x }).map_or(false, |r| val_matches(v2, r))).unwrap_or(true),
                    _ => true,
                })
                .map(|d| d.level)
                .max()
                .unwrap_or(0)
        };
        let scope_level = |slots: &Vec<Option<MS>>, entered: &Vec<usize>| entered.iter().filter_map(|s| slots[*s].as_ref()).filter(|m| m.id.is_some() && !m.invisible).map(|m| m.contrib_at_enter).max().unwrap_or(0);
        for (oi, op) in ops.iter().enumerate() {
            match *op {
                Op::Open { slot, name, target, x, y } => {
                    let s_ = slot as usize % NSLOT;
                    if slots[s_].is_some() {
                        continue;
                    }
                    let tg = TARGETS[target as usize % 6];
                    let nm = ["alpha", "beta"][name as usize % 2];
                    let (x, y) = if nm == "alpha" { (x, y) } else { (None, None) };
                    let i = meta_index(1, tg, nm);
                    let mut ms = MS { id: None, target: tg, name: nm, x, y, contrib_at_enter: 0, invisible: false };
                    let named = ddirs.iter().any(|d| d.cares(tg, nm));
                    let want = static_enabled(sdirs, 1, tg) || named || scope_level(&slots, &entered) >= 1;
                    ms.id = st.new_span(i, x, y);
                    // with a per-layer filter the registry may hold a span the filter rejected;
                    // it exists for this check only if the filtered layer saw it
                    if ms.id.is_some() && !st.leaf_saw_new_span() {
                        ms.invisible = true;
                    }
                    if (ms.id.is_some() && !ms.invisible) != want {
                        return fail(
                            "context span: created/disabled disagrees with the directives",
                            format!("{s:?} ({which}) op #{oi} {op:?}: span {nm} at {tg:?} level ERROR created={}, reference {want}", ms.id.is_some() && !ms.invisible),
                        );
                    }
                    slots[s_] = Some(ms);
                }
                Op::Record { slot, field, v } => {
                    let s_ = slot as usize % NSLOT;
                    if entered.contains(&s_) {
                        continue; // values recorded while inside do not move the scope (documented XXX)
                    }
                    if let Some(ms) = slots[s_].as_mut() {
                        if ms.name != "alpha" {
                            continue;
                        }
                        // re-recording a field with another value is outside the property (matchers
                        // are sticky: once a value matched it stays matched)
                        // (recording the SAME value once more is fine and must change nothing)
                        let cur = if field % 2 == 0 { ms.x } else { ms.y };
                        if cur.is_some() && cur != Some(v) {
                            continue;
                        }
                        if cur == Some(v) {
                            classes.push("same_value_recorded_again".into());
                        }
                        if let Some(id) = &ms.id {
                            let i = meta_index(1, ms.target, ms.name);
                            let fs = METAS[i].fields();
                            let f = fs.field(["x", "y"][field as usize % 2]).unwrap();
                            let (b, u, sv, dv);
                            let val: &dyn Value = match v {
                                Val::B(x) => {
                                    b = x;
                                    &b
                                }
                                Val::U(x) => {
                                    u = x;
                                    &u
                                }
                                Val::S(i) if i % 16 < 8 => {
                                    sv = RVALS[i as usize % 8];
                                    &sv
                                }
                                Val::S(i) => {
                                    dv = tracing_core::field::debug(Bare(RVALS[i as usize % 8]));
                                    &dv
                                }
                            };
                            let vals = [(&f, Some(val))];
                            let vs = fs.value_set(&vals);
                            st.d.record(id, &span::Record::new(&vs));
                        }
                        if field % 2 == 0 {
                            ms.x = Some(v)
                        } else {
                            ms.y = Some(v)
                        }
                        classes.push("value_recorded_after_creation".into());
                    }
                }
                Op::Enter { slot } => {
                    let s_ = slot as usize % NSLOT;
                    if entered.contains(&s_) {
                        continue;
                    }
                    if let Some(ms) = slots[s_].as_mut() {
                        ms.contrib_at_enter = contrib(ms);
                        if let Some(id) = &ms.id {
                            st.d.enter(id);
                        }
                        entered.push(s_);
                    }
                }
                Op::Exit => {
                    if let Some(s_) = entered.pop() {
                        if let Some(id) = slots[s_].as_ref().and_then(|m| m.id.clone()) {
                            st.d.exit(&id);
                        }
                    }
                }
                Op::Close { slot } => {
                    let s_ = slot as usize % NSLOT;
                    if entered.contains(&s_) {
                        continue;
                    }
                    if let Some(ms) = slots[s_].take() {
                        if let Some(id) = ms.id {
                            st.d.try_close(id);
                        }
                    }
                }
                Op::Event { level, target } => {
                    let lvl = 1 + level % 5;
                    let tg = TARGETS[target as usize % 6];
                    let i = meta_index(lvl, tg, "ev");
                    let by_static = static_enabled(sdirs, lvl, tg);
                    let sc = scope_level(&slots, &entered);
                    let want = by_static || sc >= lvl;
                    let got = st.event(i);
                    if !by_static && sc > 0 {
                        nontrivial = true;
                        classes.push("event_inside_scoped_span".into());
                    }
                    if got != want {
                        let sig = if got { "event enabled although no directive (static or entered span scope) allows its level" } else { "event disabled although a directive (static or entered span scope) allows its level" };
                        return fail(sig, format!("{s:?} ({which}, {}) op #{oi} {op:?}: level {lvl} target {tg:?}: delivered {got}; static {by_static}, scope level {sc}; entered {:?}", if as_filter { "per-layer filter" } else { "global layer" }, entered.iter().filter_map(|s| slots[*s].as_ref()).map(|m| (m.name, m.target, m.x, m.y, m.contrib_at_enter)).collect::<Vec<_>>()));
                    }
                }
                Op::ProbeSpan { level, target, name } => {
                    let lvl = 1 + level % 5;
                    let tg = TARGETS[target as usize % 6];
                    let nm = ["alpha", "beta"][name as usize % 2];
                    let i = meta_index(lvl, tg, nm);
                    let by_static = static_enabled(sdirs, lvl, tg);
                    let sc = scope_level(&slots, &entered);
                    let pure_name = ddirs.iter().filter(|d| d.cares(tg, nm) && !matches!(d.field, Some((_, Some(_))))).map(|d| d.level).max().unwrap_or(0);
                    let named = ddirs.iter().any(|d| d.cares(tg, nm));
                    let got = match st.new_span(i, None, None) {
                        Some(id) => {
                            let saw = st.leaf_saw_new_span();
                            st.d.try_close(id);
                            saw
                        }
                        None => false,
                    };
                    // only the unambiguous cases are asserted (see assumptions)
                    if (by_static || sc >= lvl || pure_name >= lvl) && !got {
                        return fail("span disabled although a directive allows its level", format!("{s:?} ({which}) op #{oi} {op:?}: span {nm} level {lvl} at {tg:?}: static {by_static}, scope {sc}, directive naming it {pure_name}"));
                    }
                    if !by_static && sc < lvl && !named && got {
                        return fail("span enabled although no directive allows it", format!("{s:?} ({which}) op #{oi} {op:?}: span {nm} level {lvl} at {tg:?}"));
                    }
                }
            }
        }
        while let Some(s_) = entered.pop() {
            if let Some(id) = slots[s_].as_ref().and_then(|m| m.id.clone()) {
                st.d.exit(&id);
            }
        }
        for ms in slots.into_iter().flatten() {
            if let Some(id) = ms.id {
                st.d.try_close(id);
            }
        }
    }
    if as_filter {
        classes.push("env_as_per_layer_filter".into());
    }
    classes.sort();
    classes.dedup();
    Outcome::pass(nontrivial, classes)
}

fn run_raw(dirs: &str) -> Outcome {
    let t = dirs.parse::<Targets>();
    // a single directive containing a field list with commas is accepted by the Directive
    // parser (EnvFilter::try_new would split the string on ',' first)
    let e = EnvFilter::try_new(dirs).or_else(|_| dirs.parse::<tracing_subscriber::filter::Directive>().map(|d| EnvFilter::try_new("").unwrap().add_directive(d)));
    let (t, e) = match (t, e) {
        (Ok(t), Ok(e)) => (t, e),
        _ => return Outcome::pass(false, vec!["raw_not_accepted_by_both".into()]),
    };
    let ts = stack_targets(t.clone(), Place::GlobalLayer);
    let es = stack_env(e, Place::GlobalLayer);
    for i in 0..N {
        let m = &METAS[i];
        if !m.is_event() {
            continue;
        }
        let (a, b) = {
            let _g = tracing_core::dispatch::set_default(&ts.d);
            let a = ts.event(i);
            drop(_g);
            let _g = tracing_core::dispatch::set_default(&es.d);
            (a, es.event(i))
        };
        let we = t.would_enable(m.target(), m.level());
        if we != a {
            return fail("F9: Targets::would_enable ignores field-list directives that Targets' own filtering honours", format!("{dirs:?}: would_enable({:?}, {}) = {we} but the event is {}", m.target(), m.level(), if a { "delivered" } else { "filtered out" }));
        }
        // single directive `target[{f1,f2}]=level`: by the documented grammar it enables events of
        // that target that declare all listed fields, up to the level
        if let (Some(lb), Some(rb), false) = (dirs.find("[{"), dirs.find("}]="), dirs.contains("],")) {
            let target = &dirs[..lb];
            let names: Vec<&str> = dirs[lb + 2..rb].split(',').map(|x| x.trim()).filter(|x| !x.is_empty()).collect();
            let level = NAMES.iter().position(|n| *n == &dirs[rb + 3..]).unwrap_or(5) as u8;
            let want = m.target().starts_with(target) && names.iter().all(|n| m.fields().field(n).is_some()) && rank_of(i) <= level;
            if names.len() >= 2 && (a != want || b != want) {
                return fail("F13: a field-name list with more than one field is mangled (Targets and EnvFilter split on every ','; Directive::from_str keeps the ',' in the field name)", format!("{dirs:?}: event level {} target {:?} fields {:?}: Targets delivers {a}, EnvFilter (add_directive) delivers {b}, grammar says {want}", m.level(), m.target(), m.fields().iter().map(|f| f.name()).collect::<Vec<_>>()));
            }
        }
        if a != b {
            return fail("Targets and EnvFilter disagree on a string both accept", format!("{dirs:?}: event level {} target {:?}: Targets {a}, EnvFilter {b}", m.level(), m.target()));
        }
    }
    Outcome::pass(false, vec![])
}

fn run_raw_directive(dirs: &str) -> Outcome {
    let d = match dirs.parse::<tracing_subscriber::filter::Directive>() {
        Ok(d) => d,
        Err(e) => return fail("Directive rejects a string of the documented grammar", format!("{dirs:?}: {e}")),
    };
    let shown = d.to_string();
    match shown.parse::<tracing_subscriber::filter::Directive>() {
        Ok(d2) if d2.to_string() == shown => {}
        other => return fail("Directive does not round-trip through Display", format!("{dirs:?} -> {shown:?} -> {:?}", other.map(|d| d.to_string()).map_err(|e| e.to_string()))),
    }
    let es = stack_env(EnvFilter::try_new("").unwrap().add_directive(d), Place::GlobalLayer);
    let _g = tracing_core::dispatch::set_default(&es.d);
    let (lb, rb) = (dirs.find("[{").unwrap_or(0), dirs.find("}]=").unwrap_or(0));
    let target = &dirs[..lb];
    let names: Vec<&str> = dirs[lb + 2..rb].split(',').map(|x| x.trim()).filter(|x| !x.is_empty()).collect();
    let level = NAMES.iter().position(|n| *n == &dirs[rb + 3..]).unwrap_or(5) as u8;
    for i in (0..N).filter(|i| METAS[*i].is_event()) {
        let m = &METAS[i];
        let want = m.target().starts_with(target) && names.iter().all(|n| m.fields().field(n).is_some()) && rank_of(i) <= level;
        let got = es.event(i);
        if got != want {
            return fail("field-list directive does not select the events that declare all listed fields", format!("{dirs:?}: event level {} target {:?}: delivered {got}, grammar says {want}", m.level(), m.target()));
        }
    }
    Outcome::pass(true, vec!["raw_directive".into()])
}

fn sdir_strategy() -> BoxedStrategy<SDir> {
    let sp = prop_oneof![3 => Just(Spell::Lower), 1 => Just(Spell::Upper), 2 => any::<u8>().prop_map(Spell::Mixed), 2 => Just(Spell::Digit)];
    prop_oneof![
        6 => (0u8..9, 0u8..=5, sp.clone()).prop_map(|(t, level, spell)| SDir { target: Some(t), level, spell, bare_target: false }),
        1 => (0u8..9).prop_map(|t| SDir { target: Some(t), level: 5, spell: Spell::Lower, bare_target: true }),
        2 => (0u8..=5, sp).prop_map(|(level, spell)| SDir { target: None, level, spell, bare_target: false }),
    ]
    .boxed()
}
fn val_strategy() -> BoxedStrategy<Val> {
    prop_oneof![3 => any::<bool>().prop_map(Val::B), 3 => (0u64..3).prop_map(Val::U), 2 => (0u8..16).prop_map(Val::S)].boxed()
}
fn ddir_strategy() -> BoxedStrategy<DDir> {
    (proptest::option::weighted(0.4, 0u8..9), proptest::option::weighted(0.8, 0u8..2), proptest::option::weighted(0.5, (0u8..2, proptest::option::weighted(0.7, val_strategy()))), 1u8..=5, proptest::option::weighted(0.2, val_strategy()))
        .prop_map(|(target, span, field, level, field2)| {
            // `[]` alone is not a directive: a scope needs a name or a field. A field list
            // without span name and without value (`[{x}]=..`) is a *static* directive of the
            // env filter as well, with its own matching rules for spans; it is not generated.
            let span = if span.is_none() && !matches!(field, Some((_, Some(_)))) { Some(0) } else { span };
            DDir { target, span, field, level, field2 }
        })
        .boxed()
}

// ---------------------------------------------------------------------------------------------
// coverage-guided stage (thorough tier): bytes -> a string of grammar tokens -> the raw oracles

/// tokens of the directive grammar (and a little noise); one input byte selects one token
pub const FUZZ_TOKENS: &[&str] = &[
    "app", "application", "app::db", "app::db::pool", "other", "o", "ap", "zzz", "::", "db", "=", ",", "[", "]", "{", "}", "[{", "}]", "}]=",
    "off", "error", "warn", "info", "debug", "trace", "OFF", "ERROR", "Warn", "INFO", "DeBuG", "TRACE", "0", "1", "2", "3", "4", "5", "6",
    "alpha", "beta", "x", "y", "cs", "nope", "true", "false", "\"", "1.5", "-1", " ", "a", "=info", "=trace", "=debug", "=off", "alpha{x=1}", "[alpha]=debug", "[{x}]=info", "app=warn", "app::db=trace",
];

pub fn fuzz_string(data: &[u8]) -> String {
    data.iter().take(24).map(|b| FUZZ_TOKENS[*b as usize % FUZZ_TOKENS.len()]).collect()
}

/// The raw-string oracles on one fuzz input. `Fail` signatures of open known findings (F9, F13)
/// are reported as such by the caller.
fn is_level(s: &str) -> bool {
    NAMES.iter().any(|n| n.eq_ignore_ascii_case(s)) || matches!(s, "0" | "1" | "2" | "3" | "4" | "5")
}
fn is_ident(s: &str) -> bool {
    !s.is_empty() && s.chars().all(|c| c.is_ascii_lowercase() || c == '_') && !is_level(s)
}
fn is_target(s: &str) -> bool {
    !s.is_empty() && s.split("::").all(is_ident)
}
fn is_value(s: &str) -> bool {
    matches!(s, "true" | "false") || s.parse::<f64>().is_ok() || (s.len() >= 2 && s.starts_with('"') && s.ends_with('"') && !s[1..s.len() - 1].contains('"')) || is_ident(s)
}
/// Is the string a non-empty comma-separated list of directives of the documented grammar
/// `target[span{field=value,..}]=level` (each part optional as documented)? The oracles of the
/// token stage are only applied to such strings; anything else must merely be handled without
/// a panic.
pub fn in_grammar(s: &str) -> bool {
    // commas inside a field list belong to that list
    let mut parts: Vec<String> = Vec::new();
    let (mut depth, mut cur) = (0i32, String::new());
    for c in s.chars() {
        match c {
            '{' => depth += 1,
            '}' => depth -= 1,
            _ => {}
        }
        if c == ',' && depth == 0 {
            parts.push(std::mem::take(&mut cur));
        } else {
            cur.push(c);
        }
    }
    parts.push(cur);
    parts.iter().all(|d| {
        if is_level(d) || is_target(d) {
            return true;
        }
        let (head, level) = match d.rsplit_once('=') {
            Some((h, l)) if is_level(l) && !h.contains('{') || h.ends_with(']') && is_level(l) => (h, true),
            _ => (d.as_str(), false),
        };
        let _ = level;
        if is_target(head) {
            return true;
        }
        // target[span{fields}]
        let Some(lb) = head.find('[') else { return false };
        if !head.ends_with(']') || !(lb == 0 || is_target(&head[..lb])) {
            return false;
        }
        let inner = &head[lb + 1..head.len() - 1];
        let (span, fields) = match inner.find('{') {
            Some(b) if inner.ends_with('}') => (&inner[..b], Some(&inner[b + 1..inner.len() - 1])),
            Some(_) => return false,
            None => (inner, None),
        };
        if !(span.is_empty() || is_ident(span)) || (span.is_empty() && fields.is_none()) {
            return false;
        }
        fields.map(|f| !f.is_empty() && f.split(',').all(|kv| match kv.split_once('=') { Some((k, v)) => is_ident(k) && is_value(v), None => is_ident(kv) })).unwrap_or(true)
    })
}

pub fn fuzz_one(data: &[u8]) -> Outcome {
    let s = fuzz_string(data);
    let mut classes: Vec<String> = Vec::new();
    if !in_grammar(&s) {
        // outside the documented grammar: only "handled without a panic"
        let _ = s.parse::<Targets>().map(|t| t.to_string());
        let _ = EnvFilter::try_new(&s).map(|e| e.to_string());
        return Outcome::pass(false, vec!["fuzz:outside_grammar".into()]);
    }
    classes.push("fuzz:in_grammar".into());
    // Targets documents a comma-delimited list of `target=level` pairs (and the bare forms); its
    // handling of the bracketed span / field syntax is the subject of the recorded findings F9
    // and F13, so the Targets oracles of this stage are applied to bracket-free strings only.
    let targets_grammar = !s.contains('[') && !s.contains('{');
    if !targets_grammar {
        classes.push("fuzz:span_or_field_syntax".into());
    }
    // Targets: Display / parse round trip, behaviour preserved
    if let (true, Ok(t)) = (targets_grammar, s.parse::<Targets>()) {
        classes.push("fuzz:targets_accepts".into());
        let shown = t.to_string();
        match shown.parse::<Targets>() {
            Ok(t2) => {
                if t2.to_string() != shown {
                    return fail("Targets does not round-trip through Display", format!("{s:?} -> {shown:?} -> {:?}", t2.to_string()));
                }
                for tg in TARGETS.iter().chain(DIR_TARGETS.iter()) {
                    for l in [tracing_core::Level::ERROR, tracing_core::Level::WARN, tracing_core::Level::INFO, tracing_core::Level::DEBUG, tracing_core::Level::TRACE] {
                        if t.would_enable(tg, &l) != t2.would_enable(tg, &l) {
                            return fail("Targets behaves differently after a Display / parse round trip", format!("{s:?} -> {shown:?}: would_enable({tg:?}, {l})"));
                        }
                    }
                }
            }
            Err(e) => return fail("Targets' Display output is rejected by its own parser", format!("{s:?} -> {shown:?}: {e}")),
        }
    }
    if let Ok(e) = EnvFilter::try_new(&s) {
        classes.push("fuzz:envfilter_accepts".into());
        let shown = e.to_string();
        match EnvFilter::try_new(&shown) {
            Ok(e2) => {
                if e2.to_string() != shown {
                    return fail("EnvFilter does not round-trip through Display", format!("{s:?} -> {shown:?} -> {:?}", e2.to_string()));
                }
            }
            Err(err) => return fail("EnvFilter's Display output is rejected by its own parser", format!("{s:?} -> {shown:?}: {err}")),
        }
    }
    let o = if targets_grammar { run_raw(&s) } else { Outcome::pass(false, vec!["raw_not_accepted_by_both".into()]) };
    match o.verdict {
        vp_engine::Verdict::Pass => {
            let both = !o.classes.iter().any(|c| c == "raw_not_accepted_by_both");
            if both {
                classes.push("fuzz:accepted_by_both".into());
            }
            Outcome::pass(both && s.contains(','), classes)
        }
        _ => o,
    }
}

// ---------------------------------------------------------------------------------------------
// field-list directives on events that declare several fields

const FD_TARGETS: [&str; 3] = ["app", "app::db", "ap"];
const FD_FIELDS: [&str; 4] = ["a", "b", "c", "zz"];
const FD_EVENT_TARGETS: [&str; 3] = ["app", "app::db", "other"];
const FD_SETS: [&[&str]; 5] = [&["a", "b", "c"], &["a"], &["b", "c"], &["c", "a"], &[]];
struct FCs(usize);
impl tracing_core::callsite::Callsite for FCs {
    fn set_interest(&self, _: tracing_core::Interest) {}
    fn metadata(&self) -> &tracing_core::Metadata<'_> {
        &fmetas()[self.0]
    }
}
const FN: usize = 75;
static FCS: [FCs; FN] = {
    let mut a = [const { FCs(0) }; FN];
    let mut i = 0;
    while i < FN {
        a[i] = FCs(i);
        i += 1;
    }
    a
};
fn fmetas() -> &'static [tracing_core::Metadata<'static>] {
    static M: std::sync::OnceLock<Vec<tracing_core::Metadata<'static>>> = std::sync::OnceLock::new();
    M.get_or_init(|| {
        let lv = [tracing_core::Level::ERROR, tracing_core::Level::WARN, tracing_core::Level::INFO, tracing_core::Level::DEBUG, tracing_core::Level::TRACE];
        let mut v = Vec::new();
        for (li, l) in lv.iter().enumerate() {
            for (ti, t) in FD_EVENT_TARGETS.iter().enumerate() {
                for (si, set) in FD_SETS.iter().enumerate() {
                    let i = (li * 3 + ti) * 5 + si;
                    v.push(tracing_core::Metadata::new("fev", t, *l, None, None, None, tracing_core::field::FieldSet::new(set, tracing_core::identify_callsite!(&FCS[i])), tracing_core::metadata::Kind::EVENT));
                }
            }
        }
        v
    })
}

fn run_field_dirs(dirs: &[FDir]) -> Outcome {
    let render = |d: &FDir| {
        let t = d.target.map(|t| FD_TARGETS[t as usize % 3]).unwrap_or("");
        let mut names: Vec<&str> = vec![];
        for f in &d.fields {
            let n = FD_FIELDS[*f as usize % 4];
            if !names.contains(&n) {
                names.push(n);
            }
        }
        let lvl = NAMES[d.level as usize % 6];
        if names.is_empty() {
            (if t.is_empty() { lvl.to_string() } else { format!("{t}={lvl}") }, t, names)
        } else {
            (format!("{t}[{{{}}}]={lvl}", names.join(",")), t, names)
        }
    };
    let mut e = EnvFilter::try_new("").unwrap();
    let mut table: Vec<(String, &str, Vec<&str>, u8)> = Vec::new();
    for d in dirs {
        let (text, t, names) = render(d);
        let parsed = match text.parse::<tracing_subscriber::filter::Directive>() {
            Ok(p) => p,
            Err(err) => return fail("Directive rejects a string of the documented grammar", format!("{text:?}: {err}")),
        };
        e = e.add_directive(parsed);
        // a later directive with the same target and the same field list (in the same order)
        // replaces the earlier one; the same names in another order are a different, equally
        // specific directive
        table.retain(|(_, tt, nn, _)| !(*tt == t && *nn == names));
        table.push((text, t, names, d.level % 6));
    }
    let shown: Vec<&String> = table.iter().map(|t| &t.0).collect();
    let filter_text = e.to_string();
    let log: LeafLog = Default::default();
    let leaf = RecLeaf::new(log.clone());
    let c = Registry::default().with(leaf).with(e);
    let hint = tracing_core::Collect::max_level_hint(&c).map(|h| h.into_level().map(|l| vp_rec::rank(&l)).unwrap_or(0));
    let d = Dispatch::new(c);
    let _g = tracing_core::dispatch::set_default(&d);
    let (mut judged, mut multi) = (0, 0);
    for (i, m) in fmetas().iter().enumerate() {
        let rank = vp_rec::rank(m.level());
        // reference: matching directives, most specific first
        let matching: Vec<&(String, &str, Vec<&str>, u8)> = table.iter().filter(|(_, t, names, _)| m.target().starts_with(t) && names.iter().all(|n| m.fields().field(n).is_some())).collect();
        let best = matching.iter().map(|x| (x.1.len() + if x.1.is_empty() { 0 } else { 1000 }, x.2.len())).max();
        let want = match best {
            None => false,
            Some(b) => {
                let tops: Vec<u8> = matching.iter().filter(|x| (x.1.len() + if x.1.is_empty() { 0 } else { 1000 }, x.2.len()) == b).map(|x| x.3).collect();
                if tops.iter().any(|l| *l != tops[0]) {
                    continue; // equally specific directives disagree: the order among them is unspecified
                }
                if matching.len() >= 2 {
                    multi += 1;
                }
                tops[0] >= rank
            }
        };
        judged += 1;
        // what the macros do: hint, interest, enabled, dispatch
        log.lock().unwrap().clear();
        let gate = hint.map(|h| rank <= h).unwrap_or(true) && {
            let x = d.register_callsite(&fmetas()[i]);
            !x.is_never() && (x.is_always() || d.enabled(m))
        };
        if gate {
            let vs = m.fields().value_set(&[]);
            d.event(&Event::new(m, &vs));
        }
        let got = log.lock().unwrap().iter().any(|c| c.kind == LKind::Event);
        if got != want {
            return fail("field-list directives: the most specific matching directive (longest target, then more fields) does not decide", format!("directives {shown:?} (the filter prints as {filter_text:?}): event level {} target {:?} fields {:?}: delivered {got}, reference says {want}", m.level(), m.target(), m.fields().iter().map(|f| f.name()).collect::<Vec<_>>()));
        }
    }
    let _ = judged;
    Outcome::pass(multi > 0, vec!["field_list_directives".into()])
}

struct C11;
impl Property for C11 {
    type Case = Case;
    fn id(&self) -> &'static str {
        "C11"
    }
    fn isolation(&self) -> Isolation {
        Isolation::Thread
    }
    fn cases(&self, tier: Tier) -> u32 {
        tier.pick(40_000, 600_000)
    }
    fn strategy(&self, tier: Tier) -> BoxedStrategy<Case> {
        let st = proptest::collection::vec(sdir_strategy(), 1..7).prop_map(|dirs| Case::Static { dirs });
        let op = prop_oneof![
            4 => (0u8..NSLOT as u8, 0u8..2, 0u8..6, proptest::option::weighted(0.6, val_strategy()), proptest::option::weighted(0.3, val_strategy())).prop_map(|(slot, name, target, x, y)| Op::Open { slot, name, target, x, y }),
            2 => (0u8..NSLOT as u8, 0u8..2, val_strategy()).prop_map(|(slot, field, v)| Op::Record { slot, field, v }),
            4 => (0u8..NSLOT as u8).prop_map(|slot| Op::Enter { slot }),
            2 => Just(Op::Exit),
            1 => (0u8..NSLOT as u8).prop_map(|slot| Op::Close { slot }),
            8 => (0u8..5, 0u8..6).prop_map(|(level, target)| Op::Event { level, target }),
            2 => (0u8..5, 0u8..6, 0u8..2).prop_map(|(level, target, name)| Op::ProbeSpan { level, target, name }),
        ];
        let max = tier.pick(25usize, 40usize);
        // constructor: half of the cases try_new, the rest spread over the other five
        let ctor = prop_oneof![3 => Just(0u8), 3 => 1u8..6];
        let dflt = proptest::option::weighted(0.7, sdir_strategy());
        let dy = (proptest::collection::vec(sdir_strategy(), 0..3), proptest::collection::vec(ddir_strategy(), 0..4), any::<bool>(), proptest::collection::vec(op.clone(), 1..max), ctor.clone(), dflt.clone(), proptest::bool::weighted(0.25)).prop_map(|(sdirs, ddirs, as_filter, ops, ctor, dflt, under_dyn)| Case::Dynamic { sdirs, ddirs, as_filter, ops, ctor, dflt, under_dyn });
        // nested template: spans whose values do / do not satisfy a value directive are entered
        // inside each other and left again, with events in between
        let nested = (proptest::collection::vec(sdir_strategy(), 0..2), (0u8..2, val_strategy(), 1u8..=5, proptest::option::weighted(0.5, 0u8..2)), proptest::collection::vec(ddir_strategy(), 0..2), any::<bool>(), proptest::collection::vec((0u8..2, proptest::option::weighted(0.8, val_strategy()), 0u8..6, 0u8..5), 2..4), proptest::collection::vec(op, 0..6), (ctor, dflt, proptest::bool::weighted(0.25)))
            .prop_map(|(sdirs, (f, v, level, span), mut ddirs, as_filter, spans, extra, (ctor, dflt, under_dyn))| {
                ddirs.insert(0, DDir { target: None, span: span.map(|_| 0), field: Some((f, Some(v))), level, field2: None });
                let mut ops = vec![];
                for (i, (name, val, target, lvl)) in spans.iter().enumerate() {
                    let (x, y) = if f % 2 == 0 { (*val, None) } else { (None, *val) };
                    ops.push(Op::Open { slot: i as u8, name: *name & 0, target: *target, x, y });
                    ops.push(Op::Enter { slot: i as u8 });
                    ops.push(Op::Event { level: *lvl, target: *target });
                }
                for (_, _, target, lvl) in spans.iter().rev() {
                    ops.push(Op::Exit);
                    ops.push(Op::Event { level: *lvl, target: *target });
                    ops.push(Op::Event { level: 0, target: *target });
                }
                ops.extend(extra);
                Case::Dynamic { sdirs, ddirs, as_filter, ops, ctor, dflt, under_dyn }
            });
        // two-matcher template: a span satisfies one of the two value matchers of a directive
        // (recorded at creation and again later), the other one never or only later
        let twomatch = (0u8..2, val_strategy(), val_strategy(), 1u8..=5, proptest::option::weighted(0.5, val_strategy()), 0u8..3, 0u8..6, any::<bool>(), proptest::collection::vec(sdir_strategy(), 0..2))
            .prop_map(|(f, v, v2, level, other, again, target, as_filter, sdirs)| {
                let ddirs = vec![DDir { target: None, span: Some(0), field: Some((f, Some(v))), level, field2: Some(v2) }];
                let (x, y) = if f % 2 == 0 { (Some(v), other) } else { (other, Some(v)) };
                let mut ops = vec![Op::Open { slot: 0, name: 0, target, x, y }];
                for _ in 0..again {
                    ops.push(Op::Record { slot: 0, field: f, v });
                }
                ops.push(Op::Enter { slot: 0 });
                for l in 0..5u8 {
                    ops.push(Op::Event { level: l, target });
                }
                ops.push(Op::Exit);
                ops.push(Op::Event { level: 4, target });
                Case::Dynamic { sdirs, ddirs, as_filter, ops, ctor: 0, dflt: None, under_dyn: false }
            });
        // late-record template: one span is named by a name-only directive and by a more verbose
        // value directive; the value arrives through a later record, before the span is entered
        let late = (0u8..2, val_strategy(), 1u8..=4, 1u8..=5, 0u8..6, any::<bool>(), proptest::collection::vec(sdir_strategy(), 0..2), proptest::option::weighted(0.5, val_strategy()))
            .prop_map(|(f, v, l1, more, target, as_filter, sdirs, wrong_first)| {
                let l2 = (l1 + more).min(5);
                let ddirs = vec![
                    DDir { target: None, span: Some(0), field: None, level: l1, field2: None },
                    DDir { target: None, span: Some(0), field: Some((f, Some(v))), level: l2, field2: None },
                ];
                // (optionally the OTHER field gets a value at creation: it satisfies nothing)
                let (x, y) = if f % 2 == 0 { (None, wrong_first) } else { (wrong_first, None) };
                let mut ops = vec![Op::Open { slot: 0, name: 0, target, x, y }, Op::Record { slot: 0, field: f, v }, Op::Enter { slot: 0 }];
                for l in 0..5u8 {
                    ops.push(Op::Event { level: l, target });
                }
                ops.push(Op::Exit);
                ops.push(Op::Event { level: 4, target });
                Case::Dynamic { sdirs, ddirs, as_filter, ops, ctor: 0, dflt: None, under_dyn: false }
            });
        let tokens = proptest::collection::vec(any::<u8>(), 1..16).prop_map(|data| Case::Tokens { data });
        let fdir = (proptest::option::weighted(0.8, 0u8..3), proptest::collection::vec(0u8..4, 0..4), 0u8..6).prop_map(|(target, fields, level)| FDir { target, fields, level });
        let fdirs = proptest::collection::vec(fdir, 1..5).prop_map(|dirs| Case::FieldDirs { dirs });
        prop_oneof![4 => st, 4 => dy, 2 => nested, 2 => tokens, 2 => fdirs, 1 => twomatch, 1 => late].boxed()
    }
    fn run(&self, case: &Case) -> Outcome {
        match case {
            Case::Static { dirs } => run_static(dirs),
            Case::Dynamic { sdirs, ddirs, as_filter, ops, ctor, dflt, under_dyn } => run_dynamic(sdirs, ddirs, *as_filter, ops, *ctor, dflt, *under_dyn),
            Case::Raw { dirs } => run_raw(dirs),
            Case::RawDirective { dirs } => run_raw_directive(dirs),
            Case::Tokens { data } => fuzz_one(data),
            Case::FieldDirs { dirs } => run_field_dirs(dirs),
        }
    }
    fn rule(&self) -> String {
        "static cases: 1-6 directives `target=level` / bare level / bare target over 9 target strings with shared prefixes (app, application, app::db, app::db::pool, ap, app::d, ...), levels by name in random case or by digit, duplicates and conflicts in any order; each is parsed by Targets and EnvFilter, round-tripped through Display, rebuilt programmatically, and evaluated on all 90 metadata through would_enable and through delivery (global layer and per-layer filter, with macro-style gating). dynamic cases: 0-2 static + 1-3 span-scoped directives `target[span{field=value}]=level` (name alpha/beta, field x/y, bool/int matcher or none) as global layer or per-layer filter x <=25 (thorough <=40) ops {Open span with values, Record before entering, Enter, Exit, Close, Event, ProbeSpan}; also against the filter reparsed from its Display output. non-trivial: static: some metadata is matched by >=2 directives (shared prefix or duplicate); dynamic: an event whose static verdict is 'disabled' is emitted while an entered span contributes a level; distinct by case".into()
    }
    fn assumptions(&self) -> Vec<String> {
        vec![
            "context spans are ERROR-level, directive levels of span-scoped directives are >= error, so the open finding F8 (directive level below the span's own level) is not entered here (C08 owns it)".into(),
            "values are recorded before the span is entered (the code documents that later records do not move the scope)".into(),
            "for 'the span itself' only the unambiguous cases are asserted: enabled when a static directive, an entered scope, or a directive naming the span without a value matcher allows its level; disabled when no directive names it and neither statics nor scope allow it".into(),
            "field-list directives are only given to EnvFilter: Targets documents `target=level` pairs; what Targets does with field lists is recorded as known findings F9 / F13 and replayed from committed raw strings".into(),
        ]
    }
    fn enumerate(&self, _tier: Tier, shard: u32, _of: u32, rec: &mut Rec<'_, Self>) {
        if shard != 0 {
            return;
        }
        for d in ["app[{cs}]=debug", "app[{cs,cs}]=info", "o[{cs, cs}]=trace", "app::db[{cs,nope}]=trace", "[{cs}]=warn"] {
            rec.eval(&Case::RawDirective { dirs: d.to_string() });
        }
        // all pairs of (target,level) x (target,level) over a prefix chain: exhaustive small space
        let chain = [0u8, 2, 3, 6, 7];
        for a in chain {
            for b in chain {
                for la in [0u8, 2, 5] {
                    for lb in [1u8, 4] {
                        rec.eval(&Case::Static { dirs: vec![SDir { target: Some(a), level: la, spell: Spell::Lower, bare_target: false }, SDir { target: Some(b), level: lb, spell: Spell::Digit, bare_target: false }, SDir { target: None, level: 3, spell: Spell::Upper, bare_target: false }] });
                    }
                }
            }
        }
    }
}

fn main() {
    // `--decode-fuzz FILE`: print the case a coverage-guided-stage input decodes to
    let a: Vec<String> = std::env::args().collect();
    if a.len() == 3 && a[1] == "--decode-fuzz" {
        let data = std::fs::read(&a[2]).expect("readable input");
        println!("{}", serde_json::to_string(&Case::Tokens { data }).unwrap());
        return;
    }

    let _ = kf::verif_dir();
    vp_engine::main(C11)
}
