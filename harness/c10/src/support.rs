//! Types shared between the generated corpus (corpus.rs) and the C10 harness.

use std::cell::RefCell;
use std::fmt;
use std::ops::Deref;

pub const CONST_A: &str = "const.a";
pub const CONST_B: &str = "const b";
pub const CONST_C: &str = "c";

/// evaluation counters: one per value expression of a form
pub struct Ctr {
    counts: RefCell<Vec<u32>>,
}
impl Ctr {
    pub fn new(n: usize) -> Self {
        Ctr { counts: RefCell::new(vec![0; n]) }
    }
    pub fn bump(&self, i: usize) {
        self.counts.borrow_mut()[i] += 1;
    }
    pub fn tick<T>(&self, i: usize, v: T) -> T {
        self.bump(i);
        v
    }
    pub fn counts(&self) -> Vec<u32> {
        self.counts.borrow().clone()
    }
}

pub struct Holder<T> {
    pub val: T,
}
/// `p.val` evaluates through `Deref`, which ticks: lets shorthand fields count evaluations
pub struct Probe<'a, T> {
    ctr: &'a Ctr,
    i: usize,
    h: Holder<T>,
}
impl<'a, T> Probe<'a, T> {
    pub fn new(ctr: &'a Ctr, i: usize, val: T) -> Self {
        Probe { ctr, i, h: Holder { val } }
    }
}
impl<T> Deref for Probe<'_, T> {
    type Target = Holder<T>;
    fn deref(&self) -> &Holder<T> {
        self.ctr.bump(self.i);
        &self.h
    }
}

#[derive(Debug)]
pub struct ChainErr {
    pub msg: String,
    pub source: Option<Box<ChainErr>>,
}
impl ChainErr {
    pub fn build(msg: &str, depth: u8) -> ChainErr {
        ChainErr { msg: format!("{msg}#{depth}"), source: if depth == 0 { None } else { Some(Box::new(ChainErr::build(msg, depth - 1))) } }
    }
    pub fn chain(&self) -> Vec<String> {
        let mut v = vec![self.msg.clone()];
        let mut c = &self.source;
        while let Some(e) = c {
            v.push(e.msg.clone());
            c = &e.source;
        }
        v
    }
}
impl fmt::Display for ChainErr {
    fn fmt(&self, f: &mut fmt::Formatter<'_>) -> fmt::Result {
        f.write_str(&self.msg)
    }
}
impl std::error::Error for ChainErr {
    fn source(&self) -> Option<&(dyn std::error::Error + 'static)> {
        self.source.as_deref().map(|e| e as &(dyn std::error::Error + 'static))
    }
}

pub struct Vals {
    pub i: i64,
    pub u: u64,
    pub w: u128,
    pub x: i128,
    pub f: f64,
    pub b: bool,
    pub s: String,
    pub bytes: Vec<u8>,
    pub err: ChainErr,
}

/// what a typed visitor saw
/// What the recording visitor makes of a `&dyn Debug`: the text under three format specs (plain,
/// alternate, width + precision), so that a wrapper which does not hand the visitor's formatter
/// through to the value shows up. `dbg3` / `disp3` / `msg3` build the expected counterpart from
/// the value itself (`?` sigil / `%` sigil / a format-string message, which ignores outer flags).
pub fn dbg3<T: std::fmt::Debug + ?Sized>(v: &T) -> String {
    format!("{:?}\u{1}{:#?}\u{1}{:>14.3?}", v, v, v)
}
pub fn disp3<T: std::fmt::Display + ?Sized>(v: &T) -> String {
    format!("{}\u{1}{:#}\u{1}{:>14.3}", v, v, v)
}
pub fn msg3(m: String) -> String {
    format!("{m}\u{1}{m}\u{1}{m}")
}
#[derive(Debug, Clone, PartialEq)]
pub enum Seen {
    U64(u64),
    I64(i64),
    U128(u128),
    I128(i128),
    /// bits
    F64(u64),
    Bool(bool),
    Str(String),
    Bytes(Vec<u8>),
    /// Display texts of the error and its sources
    Error(Vec<String>),
    Debug(String),
}

pub enum Ret {
    Unit,
    Span(tracing::Span),
    Bool(bool),
}
pub struct Px {
    pub parent: tracing::Span,
}
#[derive(Debug, Clone, Copy, PartialEq)]
pub enum FKind {
    Event,
    Span,
    Enabled,
}
#[derive(Debug, Clone, Copy, PartialEq)]
pub enum PKind {
    Contextual,
    Root,
    Explicit,
}
pub struct FormDesc {
    pub id: u32,
    pub src: &'static str,
    pub mac: &'static str,
    pub kind: FKind,
    pub level: u8,
    pub target: Option<&'static str>,
    pub name: Option<&'static str>,
    pub parent: PKind,
    pub nticks: usize,
    /// declared field names in order (each with acceptable spellings)
    pub declared: &'static [&'static [&'static str]],
    pub empties: &'static [&'static str],
    pub rich: bool,
    pub run: fn(&Ctr, &Vals, &Px) -> Ret,
    pub expect: fn(&Vals) -> Vec<(&'static [&'static str], Seen)>,
}
