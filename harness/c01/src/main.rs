//! C01 — the caches in front of a collector (per-callsite interest, global max level) never
//! change what the collector's own filter decides.
//!
//! One history per fresh child process (fresh callsite registry, every callsite unregistered
//! at start). Oracle: the thread's current collector instance (innermost scope, else global)
//! receives the emission iff its own self-consistent filter accepts (level, target) at that
//! moment; nobody else receives anything. Both directions are checked after every emission.

use proptest::prelude::*;
use serde::{Deserialize, Serialize};
use std::sync::atomic::Ordering;
use std::sync::Arc;
use tracing_core::dispatch::{self, DefaultGuard};
use tracing_core::Dispatch;
use vp_engine::{Isolation, Outcome, Property, Tier};
use vp_rec::{FilterSpec, Kind, RecCollector, Shared, Stepper};

const NT: usize = 3;
const NSLOT: usize = 4;
const TARGETS: [&str; 3] = ["a", "a::b", "c"];

macro_rules! sites {
    ($($idx:literal, $lvl:ident, $tgt:literal;)*) => {
        fn emit_event(i: u8) {
            match i { $($idx => tracing::event!(target: $tgt, tracing::Level::$lvl, cs = $idx as u64),)* _ => {} }
        }
        fn make_span(i: u8) -> tracing::Span {
            match i { $($idx => tracing::span!(target: $tgt, tracing::Level::$lvl, "sp", cs = $idx as u64),)* _ => tracing::Span::none() }
        }
        fn probe(i: u8) -> bool {
            match i { $($idx => tracing::enabled!(target: $tgt, tracing::Level::$lvl),)* _ => false }
        }
    };
}
sites! {
    0, ERROR, "a"; 1, ERROR, "a::b"; 2, ERROR, "c";
    3, WARN, "a"; 4, WARN, "a::b"; 5, WARN, "c";
    6, INFO, "a"; 7, INFO, "a::b"; 8, INFO, "c";
    9, DEBUG, "a"; 10, DEBUG, "a::b"; 11, DEBUG, "c";
    12, TRACE, "a"; 13, TRACE, "a::b"; 14, TRACE, "c";
}
/// callsite (cs * 2 + is_span) a collector should re-emit from inside register_callsite; -1 = none
static ARMED: std::sync::atomic::AtomicI64 = std::sync::atomic::AtomicI64::new(-1);
static CONSUMED: std::sync::atomic::AtomicBool = std::sync::atomic::AtomicBool::new(false);
fn install_register_hook() {
    *vp_rec::REGISTER_HOOK.lock().unwrap() = Some(Arc::new(|m: &'static tracing_core::Metadata<'static>| {
        let a = ARMED.load(Ordering::SeqCst);
        if a < 0 {
            return;
        }
        let (cs, span) = ((a / 2) as u8, a % 2 == 1);
        if m.is_span() == span && !m.is_event() == span && vp_rec::rank(m.level()) == cs_level(cs) && m.target() == cs_target(cs) && (m.is_span() || m.is_event()) {
            if ARMED.compare_exchange(a, -1, Ordering::SeqCst, Ordering::SeqCst).is_ok() {
                CONSUMED.store(true, Ordering::SeqCst);
                if span {
                    drop(make_span(cs));
                } else {
                    emit_event(cs);
                }
            }
        }
    }));
}
fn cs_level(cs: u8) -> u8 {
    cs / 3 + 1
}
fn cs_target(cs: u8) -> &'static str {
    TARGETS[(cs % 3) as usize]
}

#[derive(Clone, Debug, Serialize, Deserialize, PartialEq)]
enum Op {
    /// create a collector with this filter in slot c (a previous occupant's handle is dropped)
    Create { t: u8, c: u8, spec: FilterSpec },
    /// drop the table's handle to slot c (it stays alive while installed somewhere)
    DropCollector { c: u8 },
    Install { t: u8, c: u8 },
    Uninstall { t: u8 },
    SetGlobal { t: u8, c: u8 },
    /// `reenter`: the first collector asked to register this callsite emits the same callsite
    /// again from inside its `register_callsite` callback (same thread, same current collector)
    Emit { t: u8, cs: u8, span: bool, #[serde(default)] reenter: bool },
    Probe { t: u8, cs: u8 },
    Rebuild { t: u8 },
    /// toggle the runtime flag a dynamic filter consults
    Flip { c: u8 },
    /// change the filter of slot c and call rebuild_interest_cache(), as documented
    Reconfigure { t: u8, c: u8, spec: FilterSpec },
}

#[derive(Clone, Debug, Serialize, Deserialize)]
struct Case {
    ops: Vec<Op>,
    /// how the collectors are handed to the library: 0 by value, 1 in an `Arc`, 2 as
    /// `Box<dyn Collect>`, 3 through `Dispatch::from_static` (leaked on purpose)
    #[serde(default)]
    wrap: u8,
}

#[derive(Default)]
struct TState {
    guards: Vec<DefaultGuard>,
}
impl Drop for TState {
    fn drop(&mut self) {
        while let Some(g) = self.guards.pop() {
            drop(g);
        }
    }
}

struct Inst {
    shared: Arc<Shared>,
    spec: FilterSpec,
    flag: bool,
    /// table handle still held
    handle: Option<Dispatch>,
}

fn run_case(case: &Case) -> Outcome {
    install_register_hook();
    let mut st: Stepper<TState> = Stepper::new(NT);
    let mut insts: Vec<Inst> = vec![];
    let mut slots: [Option<usize>; NSLOT] = [None; NSLOT];
    let mut stacks: Vec<Vec<usize>> = vec![vec![]; NT];
    let mut global: Option<usize> = None;
    let mut classes: Vec<String> = vec![];
    let mut hit = [[false; 2]; 15];
    let mut changed_since_hit = [[false; 2]; 15];
    let mut nontrivial = false;

    macro_rules! fail {
        ($i:expr, $sig:expr, $($arg:tt)*) => {{
            let o = Outcome::fail($sig, format!("op #{} {:?}: {}", $i, case.ops[$i], format!($($arg)*)));
            std::mem::forget(st);
            std::mem::forget(insts);
            return o;
        }};
    }
    let mark_changed = |c: &mut [[bool; 2]; 15]| {
        for x in c.iter_mut() {
            *x = [true, true];
        }
    };
    let live = |insts: &Vec<Inst>, stacks: &Vec<Vec<usize>>, global: Option<usize>, k: usize| insts[k].handle.is_some() || stacks.iter().any(|s| s.contains(&k)) || global == Some(k);

    for (i, op) in case.ops.iter().enumerate() {
        match op {
            Op::Create { t, c, spec } => {
                let (t, c) = (*t as usize % NT, *c as usize % NSLOT);
                if let Some(old) = slots[c] {
                    insts[old].handle = None;
                }
                let k = insts.len();
                let spec2 = spec.clone();
                let wrap = case.wrap % 4;
                let r = st.run(t, move |_| {
                    let (col, s) = RecCollector::new(k as u32, spec2, false);
                    let d = match wrap {
                        0 => Dispatch::new(col),
                        1 => Dispatch::new(Arc::new(col)),
                        2 => {
                            let b: Box<dyn tracing_core::Collect + Send + Sync> = Box::new(col);
                            Dispatch::new(b)
                        }
                        _ => Dispatch::from_static(Box::leak(Box::new(col))),
                    };
                    (d, s)
                });
                match r {
                    Ok((d, s)) => {
                        s.take();
                        insts.push(Inst { shared: s, spec: spec.clone(), flag: true, handle: Some(d) });
                        slots[c] = Some(k);
                    }
                    Err(e) => fail!(i, "panic: Dispatch::new", "{e}"),
                }
                mark_changed(&mut changed_since_hit);
            }
            Op::DropCollector { c } => {
                let c = *c as usize % NSLOT;
                if let Some(k) = slots[c].take() {
                    insts[k].handle = None;
                    mark_changed(&mut changed_since_hit);
                    classes.push("drop_collector".into());
                }
            }
            Op::Install { t, c } => {
                let (t, c) = (*t as usize % NT, *c as usize % NSLOT);
                if let Some(k) = slots[c] {
                    let d = insts[k].handle.clone().unwrap();
                    if let Err(e) = st.run(t, move |s| s.guards.push(dispatch::set_default(&d))) {
                        fail!(i, "panic: set_default", "{e}");
                    }
                    stacks[t].push(k);
                }
            }
            Op::Uninstall { t } => {
                let t = *t as usize % NT;
                if stacks[t].pop().is_some() {
                    if let Err(e) = st.run(t, |s| drop(s.guards.pop())) {
                        fail!(i, "panic: guard drop", "{e}");
                    }
                }
            }
            Op::SetGlobal { t, c } => {
                let (t, c) = (*t as usize % NT, *c as usize % NSLOT);
                if let (Some(k), None) = (slots[c], global) {
                    let d = insts[k].handle.clone().unwrap();
                    match st.run(t, move |_| dispatch::set_global_default(d).is_ok()) {
                        Ok(true) => global = Some(k),
                        Ok(false) => fail!(i, "set_global_default result", "first attempt failed"),
                        Err(e) => fail!(i, "panic: set_global_default", "{e}"),
                    }
                    classes.push("global_default".into());
                }
            }
            Op::Emit { t, cs, span, reenter } => {
                let (t, cs, span) = (*t as usize % NT, *cs % 15, *span);
                CONSUMED.store(false, Ordering::SeqCst);
                ARMED.store(if *reenter { cs as i64 * 2 + span as i64 } else { -1 }, Ordering::SeqCst);
                let r = st.run(t, move |_| {
                    if span {
                        let s = make_span(cs);
                        let dis = s.is_disabled();
                        drop(s);
                        Some(dis)
                    } else {
                        emit_event(cs);
                        None
                    }
                });
                let disabled = match r {
                    Ok(d) => d,
                    Err(e) => fail!(i, "panic: emit", "{e}"),
                };
                ARMED.store(-1, Ordering::SeqCst);
                let reentered = CONSUMED.swap(false, Ordering::SeqCst);
                if reentered {
                    classes.push("emission_from_inside_register_callsite".into());
                }
                let recv = stacks[t].last().copied().or(global);
                let accepts = |k: usize| insts[k].spec.accepts(cs_level(cs), cs_target(cs), insts[k].flag);
                let expect: Vec<(usize, usize)> = match recv {
                    Some(k) if accepts(k) => vec![(k, 1 + reentered as usize)],
                    _ => vec![],
                };
                let want_kind = if span { Kind::NewSpan } else { Kind::Event };
                let mut got: Vec<(usize, usize)> = vec![];
                for (k, inst) in insts.iter().enumerate() {
                    let calls = inst.shared.take();
                    let n = calls
                        .iter()
                        .filter(|c| c.kind == want_kind && c.fields.iter().any(|(n, v)| n == "cs" && *v == cs.to_string()) && c.level == cs_level(cs) && c.target == cs_target(cs))
                        .count();
                    let other = calls.iter().filter(|c| (c.kind == Kind::Event || c.kind == Kind::NewSpan)).count() - n;
                    if other > 0 {
                        fail!(i, "delivery of a different callsite", "instance {k} logged {other} unrelated deliveries: {calls:?}");
                    }
                    if n > 0 {
                        got.push((k, n));
                    }
                }
                let kind = if span { "span" } else { "event" };
                let first = !hit[cs as usize][span as usize];
                if got != expect {
                    let sig = if expect.is_empty() && !got.is_empty() {
                        if recv.is_some() && got.iter().all(|g| Some(g.0) == recv) {
                            format!("{kind} delivered although the collector's filter rejects it")
                        } else {
                            format!("{kind} delivered to a collector that is not the thread's current one")
                        }
                    } else if got.is_empty() || (reentered && got.len() == 1 && got[0].1 == 1 && expect.len() == 1 && got[0].0 == expect[0].0) {
                        format!("{kind} suppressed although the collector's filter accepts it{}{}", if first { " (first hit)" } else { "" }, if reentered { " (emitted while the callsite was registering)" } else { "" })
                    } else {
                        format!("{kind} delivered wrongly (count or receiver)")
                    };
                    let specs: Vec<String> = insts.iter().enumerate().filter(|(k, _)| live(&insts, &stacks, global, *k)).map(|(k, x)| format!("#{k}:{:?} flag={}", x.spec, x.flag)).collect();
                    fail!(i, sig, "callsite {cs} (level {} target {:?}): deliveries {got:?}, expected {expect:?}; current collector {recv:?}; live collectors {specs:?}; published max {:?}", cs_level(cs), cs_target(cs), tracing_core::LevelFilter::current());
                }
                if let (Some(dis), Some(_)) = (disabled, recv) {
                    if dis == !expect.is_empty() {
                        fail!(i, "span is_disabled disagrees with delivery", "is_disabled() = {dis} but deliveries {got:?}");
                    }
                }
                // non-triviality bookkeeping
                let lives: Vec<usize> = (0..insts.len()).filter(|k| live(&insts, &stacks, global, *k)).collect();
                let disagree = lives.iter().any(|k| accepts(*k)) && lives.iter().any(|k| !accepts(*k));
                if disagree && !first && changed_since_hit[cs as usize][span as usize] && recv.is_some() {
                    nontrivial = true;
                }
                if first {
                    classes.push("first_hit".into());
                }
                if recv.is_none() {
                    classes.push("emit_without_collector".into());
                }
                hit[cs as usize][span as usize] = true;
                changed_since_hit[cs as usize][span as usize] = false;
            }
            Op::Probe { t, cs } => {
                let (t, cs) = (*t as usize % NT, *cs % 15);
                let r = match st.run(t, move |_| probe(cs)) {
                    Ok(r) => r,
                    Err(e) => fail!(i, "panic: enabled!", "{e}"),
                };
                for inst in insts.iter() {
                    let calls = inst.shared.take();
                    if calls.iter().any(|c| c.kind == Kind::Event || c.kind == Kind::NewSpan) {
                        fail!(i, "probe caused a delivery", "{calls:?}");
                    }
                }
                if let Some(k) = stacks[t].last().copied().or(global) {
                    let want = insts[k].spec.accepts(cs_level(cs), cs_target(cs), insts[k].flag);
                    if r != want {
                        fail!(i, "enabled! disagrees with the collector's filter", "enabled!(level {} target {:?}) = {r}, collector #{k} {:?} flag={} decides {want}", cs_level(cs), cs_target(cs), insts[k].spec, insts[k].flag);
                    }
                    classes.push("probe".into());
                }
            }
            Op::Rebuild { t } => {
                let t = *t as usize % NT;
                if let Err(e) = st.run(t, |_| tracing_core::callsite::rebuild_interest_cache()) {
                    fail!(i, "panic: rebuild_interest_cache", "{e}");
                }
                mark_changed(&mut changed_since_hit);
            }
            Op::Flip { c } => {
                let c = *c as usize % NSLOT;
                if let Some(k) = slots[c] {
                    insts[k].flag = !insts[k].flag;
                    insts[k].shared.flag.store(insts[k].flag, Ordering::SeqCst);
                    if insts[k].spec.dynamic {
                        mark_changed(&mut changed_since_hit);
                        classes.push("flip_dynamic".into());
                    }
                }
            }
            Op::Reconfigure { t, c, spec } => {
                let (t, c) = (*t as usize % NT, *c as usize % NSLOT);
                if let Some(k) = slots[c] {
                    *insts[k].shared.spec.lock().unwrap() = spec.clone();
                    insts[k].spec = spec.clone();
                    if let Err(e) = st.run(t, |_| tracing_core::callsite::rebuild_interest_cache()) {
                        fail!(i, "panic: rebuild_interest_cache", "{e}");
                    }
                    mark_changed(&mut changed_since_hit);
                    classes.push("reconfigure".into());
                }
            }
        }
    }
    classes.sort();
    classes.dedup();
    let r = std::panic::catch_unwind(std::panic::AssertUnwindSafe(move || {
        drop(st);
        drop(insts);
    }));
    if r.is_err() {
        return Outcome::fail("panic: teardown", "dropping scopes/collectors panicked");
    }
    Outcome::pass(nontrivial, classes)
}

fn spec_strategy() -> BoxedStrategy<FilterSpec> {
    let targets = prop_oneof![
        3 => Just(None),
        1 => Just(Some(vec!["a".to_string()])),
        1 => Just(Some(vec!["a::b".to_string()])),
        1 => Just(Some(vec!["c".to_string()])),
        1 => Just(Some(vec!["a::b".to_string(), "c".to_string()])),
        1 => Just(Some(vec![])),
    ];
    (0u8..=5, targets, any::<bool>(), any::<bool>(), proptest::option::weighted(0.6, 0u8..=5))
        .prop_map(|(max_level, targets, dynamic, dyn_static_never, hint)| {
            // the hint must be a true upper bound of what the filter can accept
            let hint = hint.map(|h| h.max(max_level));
            FilterSpec { max_level, targets, dynamic, dyn_static_never, hint }
        })
        .boxed()
}

struct C01;

impl Property for C01 {
    type Case = Case;
    fn id(&self) -> &'static str {
        "C01"
    }
    fn isolation(&self) -> Isolation {
        Isolation::Child
    }
    fn cases(&self, tier: Tier) -> u32 {
        tier.pick(40_000, 600_000)
    }
    fn strategy(&self, tier: Tier) -> BoxedStrategy<Case> {
        let t = 0u8..NT as u8;
        let c = 0u8..NSLOT as u8;
        let cs = 0u8..15;
        let op = prop_oneof![
            4 => (t.clone(), c.clone(), spec_strategy()).prop_map(|(t, c, spec)| Op::Create { t, c, spec }),
            2 => c.clone().prop_map(|c| Op::DropCollector { c }),
            5 => (t.clone(), c.clone()).prop_map(|(t, c)| Op::Install { t, c }),
            2 => t.clone().prop_map(|t| Op::Uninstall { t }),
            1 => (t.clone(), c.clone()).prop_map(|(t, c)| Op::SetGlobal { t, c }),
            // emissions concentrate on few callsites so that the same one is hit repeatedly
            10 => (t.clone(), prop_oneof![3 => 0u8..15, 5 => proptest::sample::select(vec![6u8, 7, 10, 2])], any::<bool>(), proptest::bool::weighted(0.25)).prop_map(|(t, cs, span, reenter)| Op::Emit { t, cs, span, reenter }),
            2 => (t.clone(), cs).prop_map(|(t, cs)| Op::Probe { t, cs }),
            1 => t.clone().prop_map(|t| Op::Rebuild { t }),
            2 => c.clone().prop_map(|c| Op::Flip { c }),
            2 => (t, c, spec_strategy()).prop_map(|(t, c, spec)| Op::Reconfigure { t, c, spec }),
        ];
        let max = tier.pick(30usize, 45usize);
        // prelude: a few collectors exist and are installed, so that most emissions happen
        // under a current collector with other live collectors around
        let prelude = proptest::collection::vec((0u8..NT as u8, 0u8..NSLOT as u8, spec_strategy(), any::<bool>()), 0..4);
        (prelude, proptest::collection::vec(op, 1..max), prop_oneof![3 => Just(0u8), 1 => Just(1u8), 1 => Just(2u8), 1 => Just(3u8)])
            .prop_map(|(pre, ops, wrap)| {
                let mut all = vec![];
                for (t, c, spec, install) in pre {
                    all.push(Op::Create { t, c, spec });
                    if install {
                        all.push(Op::Install { t, c });
                    }
                }
                all.extend(ops);
                Case { ops: all, wrap }
            })
            .boxed()
    }
    fn run(&self, case: &Case) -> Outcome {
        run_case(case)
    }
    fn rule(&self) -> String {
        "histories of <=30 (thorough <=45) ops {Create(filter),DropCollector,Install,Uninstall,SetGlobal,Emit(event|span at one of 15 level x target macro callsites),Probe(enabled!),Rebuild,Flip,Reconfigure(+rebuild)} over 3 stepped OS threads and 4 collector slots, one fresh process per history; filters are self-consistent (level threshold x target prefixes x static|dynamic x optional true-upper-bound hint). non-trivial: an emission under a current collector at a callsite that was hit before, with a create/drop/rebuild/flip/reconfigure since that hit, while >=2 live collectors disagree on the callsite; distinct by op list".into()
    }
    fn assumptions(&self) -> Vec<String> {
        vec![
            "filters are self-consistent as the property requires (always => enabled true, never => false, hint is a true upper bound); a filter changed at run time is followed by rebuild_interest_cache() as documented".into(),
            "enabled! probes and Span::is_disabled are judged only when the thread has a current collector".into(),
            "compile-time max level: default features (TRACE), so the static stage never applies in this build".into(),
            "sequential histories on stepped threads; racing registration is C04's subject".into(),
        ]
    }
}

fn main() {
    vp_engine::main(C01)
}
