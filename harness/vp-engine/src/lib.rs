//! Shared machinery of the /verif property checks: the proptest-driven runner, the
//! child-process / fresh-thread case isolation, replay files, known-findings handling and
//! the per-shard report that `./check` merges into `evidence/<ID>.json`.
//!
//! Every random choice comes from proptest strategies seeded with VERIF_SEED; nothing here
//! reads the wall clock except to report `wall_s`.

pub mod kf;
pub mod runner;
pub mod util;

pub use runner::{main, Isolation, Outcome, Property, Tier, Verdict};
pub use util::*;
