use crate::kf;
use crate::util::*;
use proptest::strategy::BoxedStrategy;
use proptest::test_runner::{Config, RngSeed, TestCaseError, TestError, TestRunner};
use serde::de::DeserializeOwned;
use serde::{Deserialize, Serialize};
use serde_json::{json, Value};
use std::cell::RefCell;
use std::collections::{BTreeMap, HashSet};
use std::io::{Read, Write};
use std::path::{Path, PathBuf};
use std::process::{Command, Stdio};
use std::time::Instant;

#[derive(Clone, Copy, Debug, PartialEq, Eq)]
pub enum Tier {
    Quick,
    Thorough,
}

impl Tier {
    pub fn name(self) -> &'static str {
        match self {
            Tier::Quick => "quick",
            Tier::Thorough => "thorough",
        }
    }
    pub fn pick<T>(self, quick: T, thorough: T) -> T {
        match self {
            Tier::Quick => quick,
            Tier::Thorough => thorough,
        }
    }
}

#[derive(Clone, Copy, Debug, PartialEq, Eq)]
pub enum Isolation {
    /// plain function call
    Pure,
    /// fresh OS thread per case (thread-local state cannot leak between cases)
    Thread,
    /// fresh child process per case (process-global one-shot state is part of the case)
    Child,
}

#[derive(Clone, Debug, Serialize, Deserialize, PartialEq)]
pub enum Verdict {
    Pass,
    Fail { signature: String, detail: String },
    /// hang / watchdog / resource problem: never a violation
    Inconclusive(String),
}

#[derive(Clone, Debug, Serialize, Deserialize)]
pub struct Outcome {
    pub verdict: Verdict,
    pub nontrivial: bool,
    pub classes: Vec<String>,
    /// generator-level exclusions applied to this case because of an open known finding
    #[serde(default)]
    pub excluded_known: u32,
}

impl Outcome {
    pub fn pass(nontrivial: bool, classes: Vec<String>) -> Self {
        Outcome { verdict: Verdict::Pass, nontrivial, classes, excluded_known: 0 }
    }
    pub fn fail(sig: impl Into<String>, detail: impl Into<String>) -> Self {
        Outcome {
            verdict: Verdict::Fail { signature: sig.into(), detail: detail.into() },
            nontrivial: true,
            classes: vec![],
            excluded_known: 0,
        }
    }
}

pub trait Property: Sync {
    type Case: Serialize + DeserializeOwned + std::fmt::Debug + Clone + Send + Sync + 'static;

    fn id(&self) -> &'static str;
    /// Name of this binary's own replay-file family (directory under replays/regress, prefix of
    /// found replays). Differs from `id` only when one property is decided by several binaries.
    fn stage(&self) -> &'static str {
        self.id()
    }
    fn isolation(&self) -> Isolation;
    /// number of generated cases for the whole run (all shards together)
    fn cases(&self, tier: Tier) -> u32;
    fn strategy(&self, tier: Tier) -> BoxedStrategy<Self::Case>;
    /// Execute one case against the real code and judge it with the oracle. Runs inside the
    /// isolation unit (child process / fresh thread).
    fn run(&self, case: &Self::Case) -> Outcome;
    /// how cases are generated and what makes one non-trivial
    fn rule(&self) -> String;
    fn assumptions(&self) -> Vec<String> {
        Vec::new()
    }
    /// Deterministic enumeration phase (finite sub-spaces, sweeps). `rec.eval(case)` pushes a
    /// case through the normal path; `rec.bulk` accounts for cheap inline evaluations.
    fn enumerate(&self, _tier: Tier, _shard: u32, _of: u32, _rec: &mut Rec<'_, Self>)
    where
        Self: Sized,
    {
    }
    /// true when `enumerate` covers a finite space completely
    fn exhaustive(&self, _tier: Tier) -> bool {
        false
    }
    fn max_shrink_iters(&self) -> u32 {
        3000
    }
    /// seconds after which a child process gives up (reported as inconclusive)
    fn child_timeout_s(&self) -> u64 {
        20
    }
}

#[derive(Default)]
struct Stats {
    evaluations: u64,
    bulk_nontrivial: u64,
    nontrivial: HashSet<u64>,
    classes: BTreeMap<String, u64>,
    samples: Vec<Value>,
    nontrivial_samples: Vec<Value>,
    known_hits: BTreeMap<String, u64>,
    known_samples: BTreeMap<String, Value>,
    excluded_known: u64,
    inconclusive: Vec<String>,
    violations: Vec<Value>,
    lines: Vec<String>,
    enumerated: u64,
}

pub struct Rec<'a, P: Property> {
    prop: &'a P,
    stats: &'a RefCell<Stats>,
    kfs: &'a [kf::Finding],
    ctx: &'a Ctx,
}

impl<'a, P: Property> Rec<'a, P> {
    /// run one enumerated case through the normal isolation path
    pub fn eval(&mut self, case: &P::Case) {
        if self.violations() >= 3 {
            return;
        }
        self.stats.borrow_mut().enumerated += 1;
        let out = run_isolated(self.prop, case);
        if let Some((sig, detail)) = account(self.prop, self.stats, self.kfs, case, &out, true) {
            report_violation(self.prop, self.stats, self.ctx, case, &sig, &detail, None);
        }
    }
    /// account for `n` cheap inline evaluations, `nontrivial` of them distinct and non-trivial
    pub fn bulk(&mut self, n: u64, nontrivial: u64, class: &str) {
        let mut s = self.stats.borrow_mut();
        s.evaluations += n;
        s.enumerated += n;
        s.bulk_nontrivial += nontrivial;
        *s.classes.entry(class.to_string()).or_default() += n;
    }
    pub fn sample(&mut self, v: Value) {
        let mut s = self.stats.borrow_mut();
        if s.samples.len() < 12 {
            s.samples.push(v);
        }
    }
    /// number of violations reported so far (enumerations should stop early once > 0)
    pub fn violations(&self) -> usize {
        self.stats.borrow().violations.len()
    }
    /// a violation found by inline evaluation
    pub fn violation(&mut self, case: &P::Case, sig: &str, detail: &str) {
        if self.violations() >= 3 && kf::open_signature(self.kfs, sig).is_none() {
            return;
        }
        if let Some(f) = kf::open_signature(self.kfs, sig) {
            let mut s = self.stats.borrow_mut();
            *s.known_hits.entry(f.signature.clone()).or_default() += 1;
            s.known_samples
                .entry(f.signature.clone())
                .or_insert_with(|| serde_json::to_value(case).unwrap_or(Value::Null));
            return;
        }
        report_violation(self.prop, self.stats, self.ctx, case, sig, detail, None);
    }
}

struct Ctx {
    tier: Tier,
    seed: u64,
    shard: u32,
}

/// Entry point of every check binary.
pub fn main<P: Property>(prop: P) -> ! {
    install_panic_recorder();
    let args: Vec<String> = std::env::args().collect();
    let mut tier = match std::env::var("VERIF_TIER").as_deref() {
        Ok("thorough") => Tier::Thorough,
        _ => Tier::Quick,
    };
    let mut seed: u64 = std::env::var("VERIF_SEED").ok().and_then(|s| s.parse().ok()).unwrap_or(0);
    let mut shard = 0u32;
    let mut of = 1u32;
    let mut out: Option<PathBuf> = None;
    let mut replay: Option<PathBuf> = None;
    let mut child = false;
    let mut cases_override: Option<u32> = None;
    let mut i = 1;
    while i < args.len() {
        let a = args[i].as_str();
        let mut next = || {
            i += 1;
            args.get(i).cloned().unwrap_or_default()
        };
        match a {
            "--child" => child = true,
            "--tier" => {
                tier = if next() == "thorough" { Tier::Thorough } else { Tier::Quick }
            }
            "--seed" => seed = next().parse().unwrap_or(0),
            "--shard" => shard = next().parse().unwrap_or(0),
            "--of" => of = next().parse().unwrap_or(1).max(1),
            "--out" => out = Some(PathBuf::from(next())),
            "--replay" => replay = Some(PathBuf::from(next())),
            "--cases" => cases_override = next().parse().ok(),
            _ => {
                eprintln!("unknown argument {a}");
                std::process::exit(2)
            }
        }
        i += 1;
    }

    if child {
        child_main(&prop);
    }
    let kfs = kf::load(prop.id());
    if let Some(path) = replay {
        std::process::exit(replay_main(&prop, &kfs, &path));
    }
    let code = search_main(&prop, &kfs, tier, seed, shard, of, out.as_deref(), cases_override);
    std::process::exit(code)
}

fn child_main<P: Property>(prop: &P) -> ! {
    let timeout = prop.child_timeout_s();
    std::thread::spawn(move || {
        std::thread::sleep(std::time::Duration::from_secs(timeout));
        let o = Outcome {
            verdict: Verdict::Inconclusive(format!("child watchdog after {timeout}s")),
            nontrivial: false,
            classes: vec![],
            excluded_known: 0,
        };
        println!("\nOUTCOME {}", serde_json::to_string(&o).unwrap());
        let _ = std::io::stdout().flush();
        std::process::exit(3);
    });
    let mut text = String::new();
    std::io::stdin().read_to_string(&mut text).expect("read case");
    let case: P::Case = match parse_case_text(&text) {
        Ok(c) => c,
        Err(e) => {
            eprintln!("child: cannot parse case: {e}");
            std::process::exit(4)
        }
    };
    let out = run_caught(prop, &case);
    println!("\nOUTCOME {}", serde_json::to_string(&out).unwrap());
    let _ = std::io::stdout().flush();
    // do not run destructors of leaked global state
    std::process::exit(0)
}

fn run_caught<P: Property>(prop: &P, case: &P::Case) -> Outcome {
    let _quiet = quiet_panics();
    let r = std::panic::catch_unwind(std::panic::AssertUnwindSafe(|| prop.run(case)));
    match r {
        Ok(o) => o,
        Err(p) => {
            let msg = take_panic(std::thread::current().id()).unwrap_or_else(|| payload_str(&*p));
            Outcome::fail(format!("panic: {}", panic_signature(&msg)), msg)
        }
    }
}

// ---- watchdog: a case that does not come back is "inconclusive", quickly ---------------------
// (without it a deadlocked case holds its shard until ./check's budget for the whole tier runs
// out; the shard ends without a report, which ./check reports as inconclusive, exit 2)
static CASE_STARTED_MS: std::sync::atomic::AtomicU64 = std::sync::atomic::AtomicU64::new(0);
static CHILD_PID: std::sync::atomic::AtomicU32 = std::sync::atomic::AtomicU32::new(0);
static CASE_DESC: std::sync::Mutex<String> = std::sync::Mutex::new(String::new());
fn now_ms() -> u64 {
    static T0: std::sync::OnceLock<Instant> = std::sync::OnceLock::new();
    T0.get_or_init(Instant::now).elapsed().as_millis() as u64 + 1
}
fn watchdog_arm(desc: String) {
    use std::sync::atomic::Ordering::SeqCst;
    static STARTED: std::sync::Once = std::sync::Once::new();
    STARTED.call_once(|| {
        let limit_ms = std::env::var("VP_CASE_TIMEOUT_S").ok().and_then(|v| v.parse::<u64>().ok()).unwrap_or(300) * 1000;
        let _ = std::thread::Builder::new().name("vp-watchdog".into()).spawn(move || loop {
            std::thread::sleep(std::time::Duration::from_millis(500));
            let started = CASE_STARTED_MS.load(SeqCst);
            if started != 0 && now_ms().saturating_sub(started) > limit_ms {
                let desc = CASE_DESC.lock().map(|d| d.clone()).unwrap_or_default();
                eprintln!("inconclusive: a case did not finish within {} s (hang or deadlock); the shard stops here. case = {}", limit_ms / 1000, desc);
                let pid = CHILD_PID.load(SeqCst);
                if pid != 0 {
                    let _ = Command::new("kill").arg("-9").arg(pid.to_string()).status();
                }
                std::process::exit(2);
            }
        });
    });
    if let Ok(mut d) = CASE_DESC.lock() {
        *d = desc;
    }
    CASE_STARTED_MS.store(now_ms(), SeqCst);
}
fn watchdog_disarm() {
    CASE_STARTED_MS.store(0, std::sync::atomic::Ordering::SeqCst);
}

fn run_isolated<P: Property>(prop: &P, case: &P::Case) -> Outcome {
    let mut desc = serde_json::to_string(case).unwrap_or_default();
    if desc.len() > 3000 {
        let mut cut = 3000;
        while !desc.is_char_boundary(cut) {
            cut -= 1;
        }
        desc.truncate(cut);
    }
    watchdog_arm(desc);
    let o = run_isolated_inner(prop, case);
    watchdog_disarm();
    o
}
fn run_isolated_inner<P: Property>(prop: &P, case: &P::Case) -> Outcome {
    match prop.isolation() {
        Isolation::Pure => run_caught(prop, case),
        Isolation::Thread => std::thread::scope(|s| {
            let h = std::thread::Builder::new()
                .name("vp-case".into())
                .stack_size(8 << 20)
                .spawn_scoped(s, || (std::thread::current().id(), run_caught(prop, case)))
                .expect("spawn case thread");
            match h.join() {
                Ok((_, o)) => o,
                Err(p) => Outcome::fail("panic: escaped", payload_str(&*p)),
            }
        }),
        Isolation::Child => run_child(prop, case),
    }
}

fn run_child<P: Property>(_prop: &P, case: &P::Case) -> Outcome {
    let exe = std::env::current_exe().expect("current_exe");
    let mut ch = match Command::new(exe)
        .arg("--child")
        .stdin(Stdio::piped())
        .stdout(Stdio::piped())
        .stderr(Stdio::piped())
        .spawn()
    {
        Ok(c) => c,
        Err(e) => {
            return Outcome {
                verdict: Verdict::Inconclusive(format!("spawn failed: {e}")),
                nontrivial: false,
                classes: vec![],
                excluded_known: 0,
            }
        }
    };
    CHILD_PID.store(ch.id(), std::sync::atomic::Ordering::SeqCst);
    {
        let mut stdin = ch.stdin.take().unwrap();
        let _ = stdin.write_all(serde_json::to_string(case).unwrap().as_bytes());
    }
    let output = ch.wait_with_output();
    CHILD_PID.store(0, std::sync::atomic::Ordering::SeqCst);
    let output = match output {
        Ok(o) => o,
        Err(e) => {
            return Outcome {
                verdict: Verdict::Inconclusive(format!("wait failed: {e}")),
                nontrivial: false,
                classes: vec![],
                excluded_known: 0,
            }
        }
    };
    let stdout = String::from_utf8_lossy(&output.stdout);
    for line in stdout.lines().rev() {
        if let Some(rest) = line.strip_prefix("OUTCOME ") {
            if let Ok(o) = serde_json::from_str::<Outcome>(rest) {
                return o;
            }
        }
    }
    let stderr = String::from_utf8_lossy(&output.stderr);
    let tail: String = stderr.lines().rev().take(8).collect::<Vec<_>>().into_iter().rev().collect::<Vec<_>>().join(" | ");
    Outcome::fail(
        format!("child-crash: {}", panic_signature(&format!("{:?}", output.status.code()))),
        format!("child exited with {:?} without a verdict; stderr: {}", output.status, tail),
    )
}

/// Returns Some((signature, detail)) when the outcome is a violation that is not a known
/// finding.
fn account<P: Property>(
    _prop: &P,
    stats: &RefCell<Stats>,
    kfs: &[kf::Finding],
    case: &P::Case,
    out: &Outcome,
    count: bool,
) -> Option<(String, String)> {
    let mut s = stats.borrow_mut();
    if count {
        s.evaluations += 1;
        s.excluded_known += out.excluded_known as u64;
        for c in &out.classes {
            *s.classes.entry(c.clone()).or_default() += 1;
        }
        let enc = serde_json::to_string(case).unwrap_or_default();
        if s.samples.len() < 3 {
            s.samples.push(serde_json::to_value(case).unwrap_or(Value::Null));
        }
        if out.nontrivial {
            let h = hash64(&enc);
            if s.nontrivial.insert(h) && s.nontrivial_samples.len() < 3 {
                s.nontrivial_samples.push(serde_json::to_value(case).unwrap_or(Value::Null));
            }
        }
    }
    match &out.verdict {
        Verdict::Pass => None,
        Verdict::Inconclusive(why) => {
            if count && s.inconclusive.len() < 20 {
                s.inconclusive.push(why.clone());
            }
            None
        }
        Verdict::Fail { signature, detail } => {
            if let Some(f) = kf::open_signature(kfs, signature) {
                if count {
                    *s.known_hits.entry(f.signature.clone()).or_default() += 1;
                    s.known_samples
                        .entry(f.signature.clone())
                        .or_insert_with(|| serde_json::to_value(case).unwrap_or(Value::Null));
                }
                None
            } else {
                Some((signature.clone(), detail.clone()))
            }
        }
    }
}

fn report_violation<P: Property>(
    prop: &P,
    stats: &RefCell<Stats>,
    ctx: &Ctx,
    case: &P::Case,
    sig: &str,
    detail: &str,
    existing: Option<&Path>,
) {
    let path = match existing {
        Some(p) => p.to_path_buf(),
        None => {
            let dir = kf::verif_dir().join("replays/found");
            let _ = std::fs::create_dir_all(&dir);
            let enc = serde_json::to_string(case).unwrap_or_default();
            let p = dir.join(format!("{}-{:016x}.case", prop.stage(), hash64(&(enc, sig))));
            let mut text = render_case_file(prop.id(), ctx, sig, detail, case);
            if prop.stage() != prop.id() {
                text = text.replacen('\n', &format!(" stage={}\n", prop.stage()), 1);
            }
            let _ = std::fs::write(&p, text);
            p
        }
    };
    let line = format!("VIOLATION property={} replay={}", prop.id(), path.display());
    println!("{line}");
    eprintln!("  signature: {sig}\n  detail: {detail}");
    let mut s = stats.borrow_mut();
    s.lines.push(line);
    s.violations.push(json!({
        "signature": sig, "detail": detail, "replay": path.display().to_string(),
        "case": serde_json::to_value(case).unwrap_or(Value::Null),
    }));
}

pub fn render_case_file<C: Serialize>(id: &str, ctx_: &impl CtxLike, sig: &str, detail: &str, case: &C) -> String {
    let mut s = String::new();
    s.push_str(&format!("# property={} seed={} tier={} shard={}\n", id, ctx_.seed(), ctx_.tier(), ctx_.shard()));
    s.push_str(&format!("# signature={}\n", sig.replace('\n', " ")));
    for l in detail.lines().take(40) {
        s.push_str(&format!("# detail: {l}\n"));
    }
    s.push_str(&pretty(&serde_json::to_value(case).unwrap_or(Value::Null), 0));
    s.push('\n');
    s
}

pub trait CtxLike {
    fn seed(&self) -> u64;
    fn tier(&self) -> &'static str;
    fn shard(&self) -> u32;
}
impl CtxLike for Ctx {
    fn seed(&self) -> u64 {
        self.seed
    }
    fn tier(&self) -> &'static str {
        self.tier.name()
    }
    fn shard(&self) -> u32 {
        self.shard
    }
}

/// JSON with one element per line for arrays of compound values (operation lists), compact
/// otherwise.
pub fn pretty(v: &Value, depth: usize) -> String {
    let ind = "  ".repeat(depth + 1);
    let ind0 = "  ".repeat(depth);
    match v {
        Value::Object(m) if depth == 0 => {
            let parts: Vec<String> = m
                .iter()
                .map(|(k, v)| format!("{ind}{}: {}", serde_json::to_string(k).unwrap(), pretty(v, depth + 1)))
                .collect();
            format!("{{\n{}\n{ind0}}}", parts.join(",\n"))
        }
        Value::Array(a) if a.iter().any(|x| x.is_object() || x.is_array()) && depth <= 2 => {
            let parts: Vec<String> = a.iter().map(|x| format!("{ind}{}", serde_json::to_string(x).unwrap())).collect();
            format!("[\n{}\n{ind0}]", parts.join(",\n"))
        }
        _ => serde_json::to_string(v).unwrap(),
    }
}

pub fn parse_case_text<C: DeserializeOwned>(text: &str) -> Result<C, String> {
    let body: String = text.lines().filter(|l| !l.trim_start().starts_with('#')).collect::<Vec<_>>().join("\n");
    serde_json::from_str(&body).map_err(|e| e.to_string())
}

fn header_value(text: &str, key: &str) -> Option<String> {
    for l in text.lines() {
        if let Some(rest) = l.strip_prefix("# ") {
            if let Some(v) = rest.strip_prefix(&format!("{key}=")) {
                return Some(v.trim().to_string());
            }
        }
    }
    None
}

fn replay_main<P: Property>(prop: &P, kfs: &[kf::Finding], path: &Path) -> i32 {
    let text = match std::fs::read_to_string(path) {
        Ok(t) => t,
        Err(e) => {
            eprintln!("cannot read {}: {e}", path.display());
            return 2;
        }
    };
    let case: P::Case = match parse_case_text(&text) {
        Ok(c) => c,
        Err(e) => {
            eprintln!("cannot parse {}: {e}", path.display());
            return 2;
        }
    };
    let out = run_isolated(prop, &case);
    match &out.verdict {
        Verdict::Pass => {
            println!("PASS property={} replay={}", prop.id(), path.display());
            0
        }
        Verdict::Inconclusive(w) => {
            println!("INCONCLUSIVE property={} {}", prop.id(), w);
            2
        }
        Verdict::Fail { signature, detail } => {
            if let Some(f) = kf::open_signature(kfs, signature) {
                println!("KNOWN-FINDING: property={} {} [{}] {}", prop.id(), f.id, f.signature, f.what);
                eprintln!("  detail: {detail}");
                0
            } else {
                println!("VIOLATION property={} replay={}", prop.id(), path.display());
                eprintln!("  signature: {signature}\n  detail: {detail}");
                1
            }
        }
    }
}

#[allow(clippy::too_many_arguments)]
fn search_main<P: Property>(
    prop: &P,
    kfs: &[kf::Finding],
    tier: Tier,
    seed: u64,
    shard: u32,
    of: u32,
    out: Option<&Path>,
    cases_override: Option<u32>,
) -> i32 {
    let t0 = Instant::now();
    let stats = RefCell::new(Stats::default());
    let ctx = Ctx { tier, seed, shard };

    // 1. committed regression / known-finding replays (shard 0 only)
    if shard == 0 {
        let dir = kf::verif_dir().join("replays/regress").join(prop.stage());
        let mut files: Vec<PathBuf> = std::fs::read_dir(&dir)
            .map(|rd| rd.filter_map(|e| e.ok().map(|e| e.path())).filter(|p| p.extension().map(|x| x == "case").unwrap_or(false)).collect())
            .unwrap_or_default();
        files.sort();
        let mut printed: HashSet<String> = HashSet::new();
        for f in files {
            let Ok(text) = std::fs::read_to_string(&f) else { continue };
            let case: P::Case = match parse_case_text(&text) {
                Ok(c) => c,
                Err(e) => {
                    eprintln!("regress file {} does not parse ({e}); skipped", f.display());
                    stats.borrow_mut().inconclusive.push(format!("unparsable regress file {}", f.display()));
                    continue;
                }
            };
            let o = run_isolated(prop, &case);
            let expected_sig = header_value(&text, "signature");
            match &o.verdict {
                Verdict::Fail { signature, detail } => {
                    if let Some(k) = kf::open_signature(kfs, signature) {
                        let mut s = stats.borrow_mut();
                        *s.known_hits.entry(k.signature.clone()).or_default() += 1;
                        s.known_samples.entry(k.signature.clone()).or_insert_with(|| serde_json::to_value(&case).unwrap_or(Value::Null));
                        if printed.insert(k.id.clone()) {
                            let line = format!("KNOWN-FINDING: property={} {} [{}] {}", prop.id(), k.id, k.signature, k.what);
                            println!("{line}");
                            s.lines.push(line);
                        }
                    } else {
                        report_violation(prop, &stats, &ctx, &case, signature, detail, Some(&f));
                    }
                }
                Verdict::Pass => {
                    if let Some(sig) = expected_sig {
                        if kf::open_signature(kfs, &sig).is_some() {
                            eprintln!("note: open known finding [{sig}] no longer reproduces from {}", f.display());
                        }
                    }
                }
                Verdict::Inconclusive(w) => stats.borrow_mut().inconclusive.push(format!("regress {}: {w}", f.display())),
            }
            let mut s = stats.borrow_mut();
            s.evaluations += 1;
            *s.classes.entry("regress_replay".into()).or_default() += 1;
        }
    }

    // 2. deterministic enumeration
    {
        let mut rec = Rec { prop, stats: &stats, kfs, ctx: &ctx };
        prop.enumerate(tier, shard, of, &mut rec);
    }

    // 3. generated search
    let total = cases_override.unwrap_or_else(|| prop.cases(tier));
    let mine = total / of + if shard < total % of { 1 } else { 0 };
    if mine > 0 && stats.borrow().violations.is_empty() {
        let shard_seed = splitmix(seed.wrapping_mul(1_000_003).wrapping_add(shard as u64).wrapping_add(hash64(prop.id())));
        let cfg = Config {
            cases: mine,
            rng_seed: RngSeed::Fixed(shard_seed),
            failure_persistence: None,
            max_shrink_iters: prop.max_shrink_iters(),
            max_global_rejects: 1_000_000,
            ..Config::default()
        };
        let mut runner = TestRunner::new(cfg);
        let strat = prop.strategy(tier);
        let failed = std::cell::Cell::new(false);
        let last_fail: RefCell<Option<(String, String)>> = RefCell::new(None);
        let res = runner.run(&strat, |case| {
            let o = run_isolated(prop, &case);
            let counting = !failed.get();
            match account(prop, &stats, kfs, &case, &o, counting) {
                None => Ok(()),
                Some((sig, detail)) => {
                    failed.set(true);
                    *last_fail.borrow_mut() = Some((sig.clone(), detail));
                    Err(TestCaseError::fail(sig))
                }
            }
        });
        match res {
            Ok(()) => {}
            Err(TestError::Fail(_, case)) => {
                // re-run the minimal case once to get its own signature/detail
                let o = run_isolated(prop, &case);
                let (sig, detail) = match o.verdict {
                    Verdict::Fail { signature, detail } => (signature, detail),
                    _ => last_fail.borrow().clone().unwrap_or_else(|| ("unstable".into(), "minimal case did not fail when re-run".into())),
                };
                if sig == "unstable" {
                    stats.borrow_mut().inconclusive.push("shrunk case did not reproduce".into());
                } else {
                    report_violation(prop, &stats, &ctx, &case, &sig, &detail, None);
                }
            }
            Err(TestError::Abort(why)) => {
                stats.borrow_mut().inconclusive.push(format!("proptest aborted: {why}"));
            }
        }
    }

    // known findings hit only by generated cases still get their line (once)
    {
        let mut s = stats.borrow_mut();
        let hits: Vec<String> = s.known_hits.keys().cloned().collect();
        for sig in hits {
            if let Some(k) = kf::open_signature(kfs, &sig) {
                let line = format!("KNOWN-FINDING: property={} {} [{}] {}", prop.id(), k.id, k.signature, k.what);
                if !s.lines.iter().any(|l| l == &line) {
                    if shard == 0 {
                        println!("{line}");
                    }
                    s.lines.push(line);
                }
            }
        }
    }

    let s = stats.into_inner();
    let report = json!({
        "property_id": prop.id(),
        "tier": tier.name(),
        "seed": seed,
        "shard": shard,
        "of": of,
        "evaluations": s.evaluations,
        "enumerated": s.enumerated,
        "bulk_nontrivial": s.bulk_nontrivial,
        "nontrivial_hashes": s.nontrivial.iter().map(|h| format!("{h:016x}")).collect::<Vec<_>>(),
        "classes": s.classes,
        "samples": s.samples,
        "nontrivial_samples": s.nontrivial_samples,
        "known_hits": s.known_hits,
        "known_samples": s.known_samples,
        "excluded_known": s.excluded_known,
        "inconclusive": s.inconclusive,
        "violations": s.violations,
        "lines": s.lines,
        "rule": prop.rule(),
        "assumptions": prop.assumptions(),
        "exhaustive": prop.exhaustive(tier),
        "isolation": format!("{:?}", prop.isolation()),
        "wall_s": t0.elapsed().as_secs_f64(),
    });
    if let Some(p) = out {
        if let Some(d) = p.parent() {
            let _ = std::fs::create_dir_all(d);
        }
        std::fs::write(p, serde_json::to_string(&report).unwrap()).expect("write shard report");
    } else {
        let mut r = report.clone();
        r["nontrivial_hashes"] = json!(s.nontrivial.len());
        println!("{}", serde_json::to_string_pretty(&r).unwrap());
    }
    if !report["violations"].as_array().unwrap().is_empty() {
        1
    } else if !report["inconclusive"].as_array().unwrap().is_empty() {
        2
    } else {
        0
    }
}
