//! Known findings: `/verif/known_findings.jsonl`, one JSON record per line
//! `{id, property, signature, status: "open"|"fixed", commit?, what, replay?}`.
//! The file is read-only at run time.

use serde::Deserialize;
use std::path::PathBuf;

#[derive(Debug, Clone, Deserialize)]
pub struct Finding {
    pub id: String,
    pub property: String,
    pub signature: String,
    pub status: String,
    #[serde(default)]
    pub commit: Option<String>,
    pub what: String,
    /// file name under replays/regress/<property>/ that demonstrates it
    #[serde(default)]
    pub replay: Option<String>,
}

pub fn verif_dir() -> PathBuf {
    if let Ok(d) = std::env::var("VERIF_DIR") {
        return PathBuf::from(d);
    }
    PathBuf::from("/verif")
}

pub fn load(property: &str) -> Vec<Finding> {
    let p = verif_dir().join("known_findings.jsonl");
    let Ok(text) = std::fs::read_to_string(&p) else {
        return Vec::new();
    };
    let mut out = Vec::new();
    for line in text.lines() {
        let line = line.trim();
        if line.is_empty() || line.starts_with('#') {
            continue;
        }
        match serde_json::from_str::<Finding>(line) {
            Ok(f) => {
                if f.property == property {
                    out.push(f)
                }
            }
            Err(e) => eprintln!("known_findings.jsonl: bad line ({e}): {line}"),
        }
    }
    out
}

pub fn open_signature<'a>(fs: &'a [Finding], sig: &str) -> Option<&'a Finding> {
    fs.iter().find(|f| f.status == "open" && f.signature == sig)
}
