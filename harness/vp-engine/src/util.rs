use std::collections::HashMap;
use std::hash::{Hash, Hasher};
use std::sync::{Mutex, Once};
use std::thread::ThreadId;

/// Map a generated 16-bit index monotonically onto `0..len` (shrinks towards 0 without
/// the stalls `%` causes).
pub fn pick(i: u16, len: usize) -> usize {
    if len == 0 {
        return 0;
    }
    ((i as usize) * len) >> 16
}

pub fn splitmix(mut x: u64) -> u64 {
    x = x.wrapping_add(0x9E37_79B9_7F4A_7C15);
    let mut z = x;
    z = (z ^ (z >> 30)).wrapping_mul(0xBF58_476D_1CE4_E5B9);
    z = (z ^ (z >> 27)).wrapping_mul(0x94D0_49BB_1331_11EB);
    z ^ (z >> 31)
}

/// Deterministic 64-bit hash (SipHash with fixed zero keys).
pub fn hash64<T: Hash + ?Sized>(t: &T) -> u64 {
    #[allow(deprecated)]
    let mut h = std::hash::SipHasher::new();
    t.hash(&mut h);
    h.finish()
}

static PANICS: Mutex<Option<HashMap<ThreadId, String>>> = Mutex::new(None);
static HOOK: Once = Once::new();
static QUIET: std::sync::atomic::AtomicUsize = std::sync::atomic::AtomicUsize::new(0);

/// While at least one guard is alive panics are recorded but not printed.
pub struct QuietPanics;
pub fn quiet_panics() -> QuietPanics {
    QUIET.fetch_add(1, std::sync::atomic::Ordering::SeqCst);
    QuietPanics
}
impl Drop for QuietPanics {
    fn drop(&mut self) {
        QUIET.fetch_sub(1, std::sync::atomic::Ordering::SeqCst);
    }
}

/// Install a quiet panic hook that remembers the last panic message (with location) per
/// thread. Panics are part of several properties (caught by the caller), so they must not
/// spam stderr, but a panic that escapes tracing code has to be reportable.
pub fn install_panic_recorder() {
    HOOK.call_once(|| {
        std::panic::set_hook(Box::new(|info| {
            let msg = if let Some(s) = info.payload().downcast_ref::<&str>() {
                (*s).to_string()
            } else if let Some(s) = info.payload().downcast_ref::<String>() {
                s.clone()
            } else {
                "<non-string panic payload>".to_string()
            };
            let loc = info
                .location()
                .map(|l| format!("{}:{}", l.file(), l.line()))
                .unwrap_or_default();
            if QUIET.load(std::sync::atomic::Ordering::SeqCst) == 0 {
                eprintln!("panic in harness thread {:?}: {msg} @ {loc}", std::thread::current().name());
            }
            let mut g = PANICS.lock().unwrap_or_else(|e| e.into_inner());
            g.get_or_insert_with(HashMap::new)
                .insert(std::thread::current().id(), format!("{msg} @ {loc}"));
        }));
    });
}

pub fn take_panic(tid: ThreadId) -> Option<String> {
    let mut g = PANICS.lock().unwrap_or_else(|e| e.into_inner());
    g.as_mut().and_then(|m| m.remove(&tid))
}

pub fn payload_str(p: &(dyn std::any::Any + Send)) -> String {
    if let Some(s) = p.downcast_ref::<&str>() {
        (*s).to_string()
    } else if let Some(s) = p.downcast_ref::<String>() {
        s.clone()
    } else {
        "<non-string panic payload>".to_string()
    }
}

/// Shorten a panic message into something usable as a signature component.
pub fn panic_signature(msg: &str) -> String {
    let first = msg.lines().next().unwrap_or("");
    // drop volatile numbers (ids, addresses) so the signature is stable
    let mut out = String::new();
    let mut last_digit = false;
    for ch in first.chars().take(120) {
        if ch.is_ascii_digit() {
            if !last_digit {
                out.push('#');
            }
            last_digit = true;
        } else {
            last_digit = false;
            out.push(ch);
        }
    }
    out
}
