//! C15 — the non-blocking writer neither loses, duplicates nor reorders accepted lines.
//!
//! Case = queue capacity x lossy/non-lossy x 1-4 producer threads x a step list {Offer(p, n
//! lines), CloseGate, OpenGate, Settle, DropGuard} x fault script (which write / flush attempts
//! of the underlying writer fail). The underlying writer is scripted: it logs every call,
//! blocks in `write` while the gate is closed (to fill the queue), and fails where the script
//! says. Only schedule-independent invariants over its log are asserted.

use proptest::prelude::*;
use serde::{Deserialize, Serialize};
use std::collections::{HashMap, HashSet};
use std::io::{self, Write};
use std::sync::mpsc::{channel, Sender};
use std::sync::{Arc, Condvar, Mutex};
use std::time::{Duration, Instant};
use tracing_appender::non_blocking::{NonBlocking, NonBlockingBuilder};
use vp_engine::{Isolation, Outcome, Property, Tier, Verdict};

#[derive(Clone, Debug, Serialize, Deserialize, PartialEq)]
enum Step {
    Offer { p: u8, n: u8 },
    /// every producer offers 50-350 lines in a tight loop, all released at the same instant
    Burst { n: u8 },
    /// one line of 60 000 - 200 000 bytes (beyond any plausible internal chunk size)
    OfferBig { p: u8, n: u8 },
    /// nothing happens for 550-800 ms (meant for a closed gate with producers blocked on a full
    /// queue: a non-lossy writer has to keep them waiting, however long the writer stalls)
    Stall { ms: u8 },
    CloseGate,
    OpenGate,
    /// wait until every outstanding offer returned and the worker went idle
    Settle,
    DropGuard,
}
#[derive(Clone, Debug, Serialize, Deserialize)]
struct Case {
    capacity: u8,
    lossy: bool,
    producers: u8,
    steps: Vec<Step>,
    write_faults: Vec<u16>,
    flush_faults: Vec<u16>,
    /// every write of the underlying writer takes this many milliseconds (0 = instant): a backlog
    /// then needs a noticeable part of the guard's documented one-second patience to drain
    #[serde(default)]
    slow_write_ms: u8,
    /// the underlying writer accepts at most this many bytes per write call (0 = everything);
    /// the worker has to keep writing until the whole line is out
    #[serde(default)]
    short_cap: u8,
}

#[derive(Clone, Debug, PartialEq)]
enum Call {
    Write { bytes: Vec<u8>, ok: bool },
    Flush { ok: bool },
    Drop,
}
struct Shared {
    log: Mutex<Vec<Call>>,
    gate_open: Mutex<bool>,
    cv: Condvar,
    write_faults: HashSet<usize>,
    flush_faults: HashSet<usize>,
    counters: Mutex<(usize, usize)>,
    slow_write_ms: u64,
    short_cap: usize,
}
struct Scripted(Arc<Shared>);
impl Write for Scripted {
    fn write(&mut self, buf: &[u8]) -> io::Result<usize> {
        {
            let mut g = self.0.gate_open.lock().unwrap();
            while !*g {
                g = self.0.cv.wait(g).unwrap();
            }
        }
        let idx = {
            let mut c = self.0.counters.lock().unwrap();
            c.0 += 1;
            c.0 - 1
        };
        let ok = !self.0.write_faults.contains(&idx);
        if self.0.slow_write_ms > 0 {
            std::thread::sleep(Duration::from_millis(self.0.slow_write_ms));
        }
        let n = if self.0.short_cap > 0 { buf.len().min(self.0.short_cap) } else { buf.len() };
        self.0.log.lock().unwrap().push(Call::Write { bytes: buf[..n].to_vec(), ok });
        if ok {
            Ok(n)
        } else {
            Err(io::Error::new(io::ErrorKind::Other, "scripted write fault"))
        }
    }
    fn flush(&mut self) -> io::Result<()> {
        let idx = {
            let mut c = self.0.counters.lock().unwrap();
            c.1 += 1;
            c.1 - 1
        };
        let ok = !self.0.flush_faults.contains(&idx);
        self.0.log.lock().unwrap().push(Call::Flush { ok });
        if ok {
            Ok(())
        } else {
            Err(io::Error::new(io::ErrorKind::Other, "scripted flush fault"))
        }
    }
}
impl Drop for Scripted {
    fn drop(&mut self) {
        // a writer whose release takes a moment (closing a file, finishing a frame): whoever
        // claims that the writer has been released must have waited for this
        std::thread::sleep(Duration::from_millis(2));
        self.0.log.lock().unwrap().push(Call::Drop);
    }
}

enum Cmd {
    Offer(Vec<Vec<u8>>),
    Burst(Vec<Vec<u8>>, Arc<std::sync::Barrier>),
    Stop,
}
struct Producer {
    tx: Sender<Cmd>,
    /// (line, write() returned Ok) in order, filled by the producer thread
    results: Arc<Mutex<Vec<(Vec<u8>, bool)>>>,
    pending: Arc<(Mutex<usize>, Condvar)>,
    handle: Option<std::thread::JoinHandle<()>>,
}

/// a line for messages: long ones are cut
fn short(b: &[u8]) -> String {
    let t = String::from_utf8_lossy(b);
    let t = t.trim_end();
    if t.len() > 48 {
        format!("{}..({} bytes)", &t[..24], b.len())
    } else {
        t.to_string()
    }
}
fn wait_idle(producers: &[Producer], sh: &Arc<Shared>, timeout: Duration) -> bool {
    wait_idle2(producers, sh, timeout, true)
}
fn wait_idle2(producers: &[Producer], sh: &Arc<Shared>, timeout: Duration, worker_too: bool) -> bool {
    let t0 = Instant::now();
    for p in producers {
        let (m, cv) = &*p.pending;
        let mut g = m.lock().unwrap();
        while *g > 0 {
            let left = timeout.checked_sub(t0.elapsed()).unwrap_or(Duration::from_millis(1));
            let (ng, to) = cv.wait_timeout(g, left).unwrap();
            g = ng;
            if to.timed_out() && *g > 0 {
                return false;
            }
        }
    }
    if !worker_too {
        return true;
    }
    // worker idle: the log stops growing
    let mut last = sh.log.lock().unwrap().len();
    let mut stable = 0;
    while stable < 3 && t0.elapsed() < timeout {
        std::thread::sleep(Duration::from_millis(2));
        let n = sh.log.lock().unwrap().len();
        if n == last {
            stable += 1;
        } else {
            stable = 0;
            last = n;
        }
    }
    true
}

fn run_case(case: &Case) -> Outcome {
    let sh = Arc::new(Shared {
        log: Mutex::new(vec![]),
        gate_open: Mutex::new(true),
        cv: Condvar::new(),
        write_faults: case.write_faults.iter().map(|x| *x as usize).collect(),
        flush_faults: case.flush_faults.iter().map(|x| *x as usize).collect(),
        counters: Mutex::new((0, 0)),
        // (at most 8 queued lines + 4 blocked producers: 12 x 45 ms stays well below the second)
        slow_write_ms: (case.slow_write_ms as u64).min(45),
        short_cap: case.short_cap as usize,
    });
    let cap = (case.capacity as usize).clamp(1, 8);
    let (nb, guard) = NonBlockingBuilder::default().buffered_lines_limit(cap).lossy(case.lossy).finish(Scripted(sh.clone()));
    let counter = nb.error_counter();
    let np = (case.producers as usize).clamp(1, 4);
    let mut producers: Vec<Producer> = (0..np)
        .map(|_| {
            let (tx, rx) = channel::<Cmd>();
            let results: Arc<Mutex<Vec<(Vec<u8>, bool)>>> = Default::default();
            let pending = Arc::new((Mutex::new(0usize), Condvar::new()));
            let (r2, p2) = (results.clone(), pending.clone());
            let mut w: NonBlocking = nb.clone();
            let handle = std::thread::spawn(move || {
                while let Ok(cmd) = rx.recv() {
                    match cmd {
                        Cmd::Stop => break,
                        Cmd::Burst(lines, barrier) => {
                            barrier.wait();
                            let mut oks = Vec::with_capacity(lines.len());
                            for l in &lines {
                                oks.push(w.write_all(l).is_ok());
                            }
                            r2.lock().unwrap().extend(lines.into_iter().zip(oks));
                            let (m, cv) = &*p2;
                            *m.lock().unwrap() -= 1;
                            cv.notify_all();
                        }
                        Cmd::Offer(lines) => {
                            for l in lines {
                                let ok = w.write_all(&l).is_ok();
                                r2.lock().unwrap().push((l, ok));
                            }
                            let (m, cv) = &*p2;
                            *m.lock().unwrap() -= 1;
                            cv.notify_all();
                        }
                    }
                }
            });
            Producer { tx, results, pending, handle: Some(handle) }
        })
        .collect();
    drop(nb);

    let set_gate = |open: bool| {
        *sh.gate_open.lock().unwrap() = open;
        sh.cv.notify_all();
    };
    let mut guard = Some(guard);
    let mut serial = vec![0usize; np];
    let mut offered_before_drop: Vec<Vec<Vec<u8>>> = vec![vec![]; np];
    let mut offered_after_drop = 0usize;
    let mut classes: Vec<String> = vec![];
    let mut gate_closed_with_offers = false;
    let mut backlog_at_drop = false;
    let mut gate = true;
    let mut bursts = 0usize;
    let mut stalled_long = false;
    let mut released_at_return = true;
    let mut big = 0usize;
    let mut drop_took = Duration::ZERO;
    let inconclusive = |why: &str| Outcome { verdict: Verdict::Inconclusive(why.to_string()), nontrivial: false, classes: vec![], excluded_known: 0 };

    let mut steps = case.steps.clone();
    if !steps.contains(&Step::DropGuard) {
        steps.push(Step::DropGuard);
    }
    for st in &steps {
        match *st {
            Step::Offer { p, n } => {
                let p = p as usize % np;
                let n = (n as usize % 6) + 1;
                let lines: Vec<Vec<u8>> = (0..n)
                    .map(|_| {
                        serial[p] += 1;
                        format!("p{p}-{:04}{}\n", serial[p], "x".repeat(serial[p] % 3)).into_bytes()
                    })
                    .collect();
                if guard.is_some() {
                    offered_before_drop[p].extend(lines.iter().cloned());
                    if !gate {
                        gate_closed_with_offers = true;
                    }
                } else {
                    offered_after_drop += lines.len();
                }
                *producers[p].pending.0.lock().unwrap() += 1;
                let _ = producers[p].tx.send(Cmd::Offer(lines));
                if case.lossy || gate {
                    // lossy offers never block; with the gate open the worker keeps draining
                    if !wait_idle(&producers[p..=p], &sh, Duration::from_secs(10)) && guard.is_some() {
                        return inconclusive("producer did not finish within 10 s");
                    }
                }
            }
            Step::OfferBig { p, n } => {
                let p = p as usize % np;
                serial[p] += 1;
                let len = [60_000usize, 65_536, 65_537, 70_001, 131_073, 200_000][n as usize % 6];
                let mut line = format!("p{p}-{:04}big", serial[p]).into_bytes();
                line.extend((0..len).map(|i| b'a' + (i % 23) as u8));
                line.push(b'\n');
                let lines = vec![line];
                if guard.is_some() {
                    offered_before_drop[p].extend(lines.iter().cloned());
                    if !gate {
                        gate_closed_with_offers = true;
                    }
                } else {
                    offered_after_drop += lines.len();
                }
                big += 1;
                *producers[p].pending.0.lock().unwrap() += 1;
                let _ = producers[p].tx.send(Cmd::Offer(lines));
                if case.lossy || gate {
                    if !wait_idle(&producers[p..=p], &sh, Duration::from_secs(10)) && guard.is_some() {
                        return inconclusive("producer did not finish within 10 s");
                    }
                }
            }
            Step::Stall { ms } => {
                std::thread::sleep(Duration::from_millis(550 + (ms as u64 % 6) * 50));
                stalled_long = true;
            }
            Step::Burst { n } => {
                let n = 50 + (n as usize % 4) * 100;
                let barrier = Arc::new(std::sync::Barrier::new(np));
                for p in 0..np {
                    let lines: Vec<Vec<u8>> = (0..n)
                        .map(|_| {
                            serial[p] += 1;
                            format!("p{p}-{:04}{}\n", serial[p], "x".repeat(serial[p] % 3)).into_bytes()
                        })
                        .collect();
                    if guard.is_some() {
                        offered_before_drop[p].extend(lines.iter().cloned());
                        if !gate {
                            gate_closed_with_offers = true;
                        }
                    } else {
                        offered_after_drop += lines.len();
                    }
                    *producers[p].pending.0.lock().unwrap() += 1;
                    let _ = producers[p].tx.send(Cmd::Burst(lines, barrier.clone()));
                }
                bursts += 1;
                if case.lossy || gate {
                    if !wait_idle(&producers, &sh, Duration::from_secs(10)) && guard.is_some() {
                        return inconclusive("producers did not finish a burst within 10 s");
                    }
                }
            }
            Step::CloseGate => {
                if guard.is_some() {
                    gate = false;
                    set_gate(false);
                }
            }
            Step::OpenGate => {
                gate = true;
                set_gate(true);
            }
            Step::Settle => {
                gate = true;
                set_gate(true);
                if !wait_idle(&producers, &sh, Duration::from_secs(10)) {
                    return inconclusive("producers did not settle within 10 s");
                }
            }
            Step::DropGuard => {
                if let Some(g) = guard.take() {
                    // the gate is open while the guard is dropped (stalls beyond the documented
                    // shutdown timeouts are outside the property); producers blocked on a full
                    // queue are given time to get their lines accepted first
                    // (only the producers are waited for, not the worker: whatever is still queued
                    // is the backlog the drop has to write out)
                    let stalled = !gate;
                    if !stalled || producers.iter().any(|p| *p.pending.0.lock().unwrap() > 0) {
                        gate = true;
                        set_gate(true);
                        if !wait_idle2(&producers, &sh, Duration::from_secs(10), false) {
                            return inconclusive("producers did not settle before the guard drop");
                        }
                    }
                    gate = true;
                    set_gate(true);
                    let before = sh.log.lock().unwrap().iter().filter(|c| matches!(c, Call::Write { .. })).count();
                    let accepted: usize = offered_before_drop.iter().map(|v| v.len()).sum::<usize>().saturating_sub(counter.dropped_lines());
                    if before < accepted {
                        backlog_at_drop = true;
                    }
                    let t0 = Instant::now();
                    drop(g);
                    drop_took = t0.elapsed();
                    released_at_return = sh.log.lock().unwrap().iter().any(|c| *c == Call::Drop);
                }
            }
        }
    }
    set_gate(true);
    for p in producers.iter_mut() {
        let _ = p.tx.send(Cmd::Stop);
    }
    for p in producers.iter_mut() {
        if let Some(h) = p.handle.take() {
            let _ = h.join();
        }
    }
    let mut log = sh.log.lock().unwrap().clone();
    if case.short_cap > 0 {
        // a line arrives in pieces: consecutive write calls are put together up to the line end
        let mut merged: Vec<Call> = vec![];
        let mut acc: Option<(Vec<u8>, bool)> = None;
        for c in log.drain(..) {
            match c {
                Call::Write { bytes, ok } => {
                    let a = acc.get_or_insert((vec![], true));
                    a.0.extend_from_slice(&bytes);
                    a.1 &= ok;
                    if a.0.ends_with(b"\n") {
                        let (bytes, ok) = acc.take().unwrap();
                        merged.push(Call::Write { bytes, ok });
                    }
                }
                other => {
                    if let Some((bytes, ok)) = acc.take() {
                        merged.push(Call::Write { bytes, ok });
                    }
                    merged.push(other);
                }
            }
        }
        if let Some((bytes, ok)) = acc.take() {
            merged.push(Call::Write { bytes, ok });
        }
        log = merged;
    }
    let dropped = counter.dropped_lines();
    let results: Vec<Vec<(Vec<u8>, bool)>> = producers.iter().map(|p| p.results.lock().unwrap().clone()).collect();
    let fail = |sig: &str, d: String| Outcome::fail(sig, format!("{d}; case = {}; writer log = {:?}", serde_json::to_string(case).unwrap_or_default(), log.iter().map(|c| match c { Call::Write { bytes, ok } => format!("W({}{})", short(bytes), if *ok { "" } else { " FAILED" }), Call::Flush { ok } => format!("F{}", if *ok { "" } else { "!" }), Call::Drop => "DROP".into() }).collect::<Vec<_>>()));

    // I1/I2: every attempt is one whole offered buffer, none twice
    let all_offered: HashSet<Vec<u8>> = results.iter().flat_map(|r| r.iter().map(|x| x.0.clone())).collect();
    let mut seen: HashSet<Vec<u8>> = HashSet::new();
    let attempts: Vec<&Vec<u8>> = log.iter().filter_map(|c| if let Call::Write { bytes, .. } = c { Some(bytes) } else { None }).collect();
    for a in &attempts {
        if !all_offered.contains(*a) {
            return fail("underlying writer received something that is not one whole offered buffer", format!("{:?}", short(a)));
        }
        if !seen.insert((*a).clone()) {
            return fail("a buffer was written twice", format!("{:?}", String::from_utf8_lossy(a)));
        }
    }
    // I3: per producer order
    for p in 0..np {
        let pos: HashMap<&Vec<u8>, usize> = attempts.iter().enumerate().map(|(i, a)| (*a, i)).collect();
        let mut last = None;
        for (l, _) in &results[p] {
            if let Some(i) = pos.get(l) {
                if let Some(prev) = last {
                    if *i < prev {
                        return fail("lines of one producer were written out of order", format!("producer {p}: {:?}", String::from_utf8_lossy(l)));
                    }
                }
                last = Some(*i);
            }
        }
    }
    // I7: guard drop: writer released, everything accepted before the drop attempted and flushed
    let dropped_writer = log.iter().filter(|c| **c == Call::Drop).count();
    if !released_at_return {
        return fail("underlying writer not yet released when dropping the worker guard returned", format!("guard drop took {:?}", drop_took));
    }
    if dropped_writer != 1 {
        return fail("underlying writer not released by dropping the worker guard", format!("{dropped_writer} drops of the writer; guard drop took {:?}", drop_took));
    }
    if log.last() != Some(&Call::Drop) {
        return fail("underlying writer used after it was released", String::new());
    }
    if drop_took > Duration::from_millis(900) {
        return fail("dropping the worker guard ran into its shutdown timeout", format!("took {:?}", drop_took));
    }
    let before: Vec<&Vec<u8>> = offered_before_drop.iter().flatten().collect();
    let attempted_before = before.iter().filter(|l| seen.contains(**l)).count();
    if case.lossy {
        // loss accounting: attempts + reported drops == offered (lines offered after the guard
        // drop are rejected and counted as dropped too)
        let total_offered: usize = results.iter().map(|r| r.len()).sum();
        if attempts.len() + dropped != total_offered {
            return fail("lossy accounting: written + dropped_lines() != offered", format!("{} attempts + {dropped} dropped != {total_offered} offered ({} of them after the guard drop)", attempts.len(), offered_after_drop));
        }
        if before.len() - attempted_before > dropped {
            return fail("a line accepted before the guard drop was never written", format!("{} lines offered before the drop are missing but only {dropped} were reported dropped", before.len() - attempted_before));
        }
    } else {
        if dropped != 0 {
            return fail("non-lossy writer reports dropped lines", format!("{dropped}"));
        }
        for r in &results {
            for (l, ok) in r {
                if *ok && !seen.contains(l) {
                    return fail("a line accepted by the non-lossy writer was never written", format!("{:?}", String::from_utf8_lossy(l)));
                }
            }
        }
        if attempted_before != before.len() {
            return fail("a line accepted before the guard drop was never written", format!("{} of {}", attempted_before, before.len()));
        }
    }
    // a flush follows the last write
    if let Some(lw) = log.iter().rposition(|c| matches!(c, Call::Write { .. })) {
        if !log[lw..].iter().any(|c| matches!(c, Call::Flush { .. })) {
            return fail("no flush after the last line before the writer was released", String::new());
        }
    }
    let faults = log.iter().any(|c| matches!(c, Call::Write { ok: false, .. } | Call::Flush { ok: false }));
    if faults {
        classes.push("fault_injected".into());
    }
    if gate_closed_with_offers {
        classes.push("offers_while_writer_stalled".into());
    }
    if backlog_at_drop {
        classes.push("guard_dropped_with_backlog".into());
    }
    if dropped > 0 {
        classes.push("lines_dropped_lossy".into());
    }
    if case.slow_write_ms > 0 {
        classes.push("slow_writer_guard_dropped_over_backlog".into());
    }
    if stalled_long {
        classes.push("writer_stalled_longer_than_half_a_second".into());
    }
    if case.short_cap > 0 {
        classes.push("underlying_writer_takes_few_bytes_per_call".into());
    }
    if bursts > 0 && np > 1 {
        classes.push(if dropped > 0 { "simultaneous_burst_with_drops".into() } else { "simultaneous_burst".into() });
    }
    if big > 0 {
        classes.push("line_longer_than_60k".into());
    }
    if offered_after_drop > 0 {
        classes.push("offers_after_guard_drop".into());
    }
    classes.push(if case.lossy { "lossy".into() } else { "non_lossy".into() });
    Outcome::pass(faults || backlog_at_drop || (gate_closed_with_offers && (dropped > 0 || !case.lossy)), classes)
}

struct C15;
impl Property for C15 {
    type Case = Case;
    fn id(&self) -> &'static str {
        "C15"
    }
    fn isolation(&self) -> Isolation {
        Isolation::Thread
    }
    fn cases(&self, tier: Tier) -> u32 {
        tier.pick(4_000, 120_000)
    }
    fn strategy(&self, tier: Tier) -> BoxedStrategy<Case> {
        let step = prop_oneof![
            8 => (0u8..4, 0u8..6).prop_map(|(p, n)| Step::Offer { p, n }),
            1 => (0u8..4).prop_map(|n| Step::Burst { n }),
            1 => (0u8..4, 0u8..6).prop_map(|(p, n)| Step::OfferBig { p, n }),
            2 => Just(Step::CloseGate),
            2 => Just(Step::OpenGate),
            1 => Just(Step::Settle),
            1 => Just(Step::DropGuard),
        ];
        let max = tier.pick(12usize, 24usize);
        let general = (1u8..=8, any::<bool>(), 1u8..=4, proptest::collection::vec(step, 1..max), proptest::collection::vec(0u16..30, 0..4), proptest::collection::vec(0u16..12, 0..3))
            .prop_map(|(capacity, lossy, producers, steps, write_faults, flush_faults)| Case { capacity, lossy, producers, steps, write_faults, flush_faults, slow_write_ms: 0, short_cap: 0 });
        // template: a slow underlying writer (20-45 ms per write) and a guard dropped over a full
        // queue: draining takes a few hundred milliseconds, well inside the guard's documented
        // one-second patience, and the drop must not return before it is done
        let slow = (3u8..=8, any::<bool>(), 1u8..=3, 20u8..=45, proptest::collection::vec((0u8..4, 0u8..6), 2..5), any::<bool>()).prop_map(|(capacity, lossy, producers, slow_write_ms, offers, settle_first)| {
            let mut steps = vec![];
            if settle_first {
                steps.push(Step::Offer { p: 0, n: 0 });
                steps.push(Step::Settle);
            }
            steps.push(Step::CloseGate);
            for (p, n) in offers {
                steps.push(Step::Offer { p, n });
            }
            steps.push(Step::DropGuard);
            Case { capacity, lossy, producers, steps, write_faults: vec![], flush_faults: vec![], slow_write_ms, short_cap: 0 }
        });
        // template: a non-lossy writer whose underlying writer stalls for more than half a second
        // while producers are blocked on the full queue
        let stall = (1u8..=2, 1u8..=3, 0u8..6, proptest::collection::vec((0u8..4, 1u8..4), 2..4)).prop_map(|(capacity, producers, ms, offers)| {
            let mut steps = vec![Step::CloseGate];
            for (p, n) in offers {
                steps.push(Step::Offer { p, n });
            }
            steps.push(Step::Stall { ms });
            steps.push(Step::OpenGate);
            steps.push(Step::Settle);
            steps.push(Step::DropGuard);
            Case { capacity, lossy: false, producers, steps, write_faults: vec![], flush_faults: vec![], slow_write_ms: 0, short_cap: 0 }
        });
        // template: an underlying writer that takes 3-9 bytes per call, with a backlog behind a
        // closed gate (so that lines are also picked up by the worker's drain path)
        let short = (2u8..=8, any::<bool>(), 1u8..=3, 3u8..=9, proptest::collection::vec((0u8..4, 0u8..6), 1..5), any::<bool>()).prop_map(|(capacity, lossy, producers, short_cap, offers, gate)| {
            let mut steps = vec![];
            if gate {
                steps.push(Step::CloseGate);
            }
            for (p, n) in offers {
                steps.push(Step::Offer { p, n });
            }
            steps.push(Step::OpenGate);
            steps.push(Step::Settle);
            steps.push(Step::DropGuard);
            Case { capacity, lossy, producers, steps, write_faults: vec![], flush_faults: vec![], slow_write_ms: 0, short_cap }
        });
        prop_oneof![64 => general, 2 => slow, 1 => stall, 3 => short].boxed()
    }
    fn run(&self, case: &Case) -> Outcome {
        run_case(case)
    }
    fn rule(&self) -> String {
        "case = capacity 1-8 x lossy|non-lossy x 1-4 producer threads x <=12 (thorough <=24) steps {Offer(p, 1-6 unique lines), OfferBig(p, one line of 60 000-200 000 bytes), Burst (every producer offers 50-350 lines in a tight loop, all released by a barrier), CloseGate (underlying write blocks), OpenGate, Settle, DropGuard (appended if absent; producers may offer afterwards)} x fault script (subset of the first 30 write attempts and the first 12 flushes fail); 3 % of the cases: a writer that takes 20-45 ms per write and a guard dropped over a full queue; 1.5 %: a non-lossy writer whose underlying writer stalls for 550-800 ms with producers blocked; 4 %: an underlying writer that takes 3-9 bytes per call. non-trivial: a fault was injected, or the guard was dropped with a backlog, or lines were offered while the writer was stalled and (lines were dropped | mode is non-lossy); distinct by case".into()
    }
    fn assumptions(&self) -> Vec<String> {
        vec![
            "real threads without schedule control: only schedule-independent invariants over the scripted writer's log are asserted; a case that cannot make progress within 10 s is inconclusive (exit 2), never a violation".into(),
            "the gate is open while the guard is dropped and blocked producers have been admitted first, so the documented 100 ms / 1 s shutdown timeouts are not exceeded by the harness itself".into(),
            "lines offered after the guard drop began are only required not to be duplicated/reordered (lossy: counted as dropped; non-lossy: write returns Err or the line is written)".into(),
        ]
    }
}

fn main() {
    vp_engine::main(C15)
}
