#!/usr/bin/env python3
"""C10 corpus generator: seed -> harness/c10/src/corpus.rs.

Every form is one macro invocation (span!, event!, the level shorthands, enabled!) built from a
small grammar of prefixes (name:/target:/parent:), field forms (name = value, shorthand, % and ?
sigils, dotted / string-literal / constant / raw names, Empty) and message forms, over a table of
value kinds. For each form the generator writes
  * `run_N`    - the invocation; every value expression goes through `ctr.tick(i, ..)` (or a
                 `Probe` whose Deref ticks, for shorthand fields), so evaluation can be counted;
  * `expect_N` - the (name, typed value) sequence the collector's visitor has to see;
  * a `FormDesc` with level, target, name, parent kind, declared field names and the source text.
The quick tier always uses corpus seed 1 (the committed corpus.rs); the thorough tier derives the
corpus seed from VERIF_SEED and writes more forms into corpus_t.rs (not committed; selected by the
harness crate's `thorough-corpus` feature). A file is only rewritten when it changes.
"""
import argparse, os, random, sys

HERE = os.path.dirname(os.path.abspath(__file__))
OUT = os.path.join(HERE, "..", "harness", "c10", "src", "corpus.rs")

LEVELS = [("ERROR", 1, "error"), ("WARN", 2, "warn"), ("INFO", 3, "info"), ("DEBUG", 4, "debug"), ("TRACE", 5, "trace")]

# (kind, expression over `v`, expected Seen over `v`, visit method)
PLAIN = [
    ("u8", "(v.u as u8)", "Seen::U64((v.u as u8) as u64)", "u64"),
    ("u16", "(v.u as u16)", "Seen::U64((v.u as u16) as u64)", "u64"),
    ("u32", "(v.u as u32)", "Seen::U64((v.u as u32) as u64)", "u64"),
    ("u64", "v.u", "Seen::U64(v.u)", "u64"),
    ("usize", "(v.u as usize)", "Seen::U64((v.u as usize) as u64)", "u64"),
    ("i8", "(v.i as i8)", "Seen::I64((v.i as i8) as i64)", "i64"),
    ("i16", "(v.i as i16)", "Seen::I64((v.i as i16) as i64)", "i64"),
    ("i32", "(v.i as i32)", "Seen::I64((v.i as i32) as i64)", "i64"),
    ("i64", "v.i", "Seen::I64(v.i)", "i64"),
    ("isize", "(v.i as isize)", "Seen::I64((v.i as isize) as i64)", "i64"),
    ("u128", "v.w", "Seen::U128(v.w)", "u128"),
    ("i128", "v.x", "Seen::I128(v.x)", "i128"),
    ("f64", "v.f", "Seen::F64(v.f.to_bits())", "f64"),
    ("f32", "(v.f as f32)", "Seen::F64(((v.f as f32) as f64).to_bits())", "f64"),
    ("bool", "v.b", "Seen::Bool(v.b)", "bool"),
    ("str", "v.s.as_str()", "Seen::Str(v.s.clone())", "str"),
    ("string", "v.s.clone()", "Seen::Str(v.s.clone())", "str"),
    ("string_ref", "&v.s", "Seen::Str(v.s.clone())", "str"),
    ("bytes", "&v.bytes[..]", "Seen::Bytes(v.bytes.clone())", "bytes"),
    ("nz_u8", "NonZeroU8::new((v.u as u8) | 1).unwrap()", "Seen::U64(((v.u as u8) | 1) as u64)", "u64"),
    ("nz_u32", "NonZeroU32::new((v.u as u32) | 1).unwrap()", "Seen::U64(((v.u as u32) | 1) as u64)", "u64"),
    ("nz_u64", "NonZeroU64::new(v.u | 1).unwrap()", "Seen::U64(v.u | 1)", "u64"),
    ("nz_i16", "NonZeroI16::new((v.i as i16) | 1).unwrap()", "Seen::I64(((v.i as i16) | 1) as i64)", "i64"),
    ("nz_i64", "NonZeroI64::new(v.i | 1).unwrap()", "Seen::I64(v.i | 1)", "i64"),
    ("nz_u128", "NonZeroU128::new(v.w | 1).unwrap()", "Seen::U128(v.w | 1)", "u128"),
    ("wrap_i16", "Wrapping(v.i as i16)", "Seen::I64((v.i as i16) as i64)", "i64"),
    ("wrap_u64", "Wrapping(v.u)", "Seen::U64(v.u)", "u64"),
    ("ref_u64", "&v.u", "Seen::U64(v.u)", "u64"),
    ("refref_i64", "&&v.i", "Seen::I64(v.i)", "i64"),
    ("ref_f64", "&v.f", "Seen::F64(v.f.to_bits())", "f64"),
    ("ref_bool", "&v.b", "Seen::Bool(v.b)", "bool"),
    ("box_u16", "Box::new(v.u as u16)", "Seen::U64((v.u as u16) as u64)", "u64"),
    ("box_str", "v.s.clone().into_boxed_str()", "Seen::Str(v.s.clone())", "str"),
    ("display_fn", "tracing::field::display(&v.s)", "Seen::Debug(disp3(&v.s))", "debug"),
    ("debug_fn", "tracing::field::debug(&v.s)", "Seen::Debug(dbg3(&v.s))", "debug"),
    ("debug_fn_f", "tracing::field::debug(v.f)", "Seen::Debug(dbg3(&v.f))", "debug"),
    ("error", "(&v.err as &(dyn std::error::Error + 'static))", "Seen::Error(v.err.chain())", "error"),
    ("error_send", "(&v.err as &(dyn std::error::Error + Send + 'static))", "Seen::Error(v.err.chain())", "error"),
    ("error_sync", "(&v.err as &(dyn std::error::Error + Sync + 'static))", "Seen::Error(v.err.chain())", "error"),
    ("error_send_sync", "(&v.err as &(dyn std::error::Error + Send + Sync + 'static))", "Seen::Error(v.err.chain())", "error"),
]
# expressions usable behind the % sigil (Display) and the ? sigil (Debug)
DISPLAYABLE = ["v.s.as_str()", "v.u", "v.i", "v.f", "v.b", "(v.u as u8)", "&v.err", "v.w"]
DEBUGGABLE = ["v.s.as_str()", "&v.bytes", "v.f", "(v.u, v.b)", "Some(v.i)", "v.x", "&v.err", "[v.b, !v.b]"]

IDENTS = ["a", "b", "c", "count", "user", "flag", "val", "k0", "k1", "answer", "len", "x", "y", "z", "id"]
DOTTED = ["http.method", "a.b.c", "user.id", "req.len", "k.v"]
LITERALS = ["lit name", "guid:x-request-id", "with.dot lit", "\\u{fc}n\\u{ef}", "type"]
LITERAL_TEXT = {"\\u{fc}n\\u{ef}": "ünï"}
CONSTS = [("CONST_A", "const.a"), ("CONST_B", "const b"), ("CONST_C", "c")]
RAWS = ["r#type", "r#fn", "r#match"]
TARGETS = ["t1", "app::db", "c10", ""]


class Form:
    pass


def rs_str(s):
    return '"' + s.replace("\\", "\\\\").replace('"', '\\"') + '"'


def gen_form(rng, fid, force=None):
    """force = dict(kind, lvl, prefix (subset of "ntp"), first (field form of the first field, or
    "msgonly" / "none"), rest (bool)): one cell of the grid of macro arms (level shorthand x prefix
    combination x shape of the first field); everything else stays random."""
    f = Form()
    f.id = fid
    r = rng.random()
    f.kind = "Event" if r < 0.55 else ("Span" if r < 0.92 else "Enabled")
    lvl = rng.choice(LEVELS)
    shorthand = rng.random() < 0.6
    if force:
        f.kind = force["kind"]
        lvl = LEVELS[force["lvl"]]
        shorthand = True
    f.level = lvl[1]
    pre = []           # statements before the macro
    ticks = 0
    f.target = None
    f.name = None
    f.parent = "Contextual"
    prefix = []
    r_n, r_t, r_p = rng.random() < 0.25, rng.random() < 0.4, rng.random() < 0.35
    if force:
        r_n, r_t, r_p = "n" in force["prefix"], "t" in force["prefix"], "p" in force["prefix"]
    if f.kind == "Event" and r_n:
        f.name = f"ev{fid}"
        prefix.append(f"name: {rs_str(f.name)}")
    if r_t:
        f.target = rng.choice(TARGETS)
        prefix.append(f"target: {rs_str(f.target)}")
    if f.kind != "Enabled" and r_p:
        pk = rng.choice(["None", "&px.parent", "px.parent.id()"])
        f.parent = "Root" if pk == "None" else "Explicit"
        if f.kind == "Span" and pk == "None":
            pk = "None"
        prefix.append(f"parent: {pk}")

    # fields
    nfields = rng.choice([0, 1, 1, 2, 2, 3, 3, 4, 5, 6]) if f.kind != "Enabled" else rng.choice([0, 0, 1, 2, 3])
    if force:
        nfields = (0 if force["first"] in ("msgonly", "none") else 1) + (rng.choice([1, 2]) if force["rest"] else 0)
    used = set()
    fields_src = []
    declared = []      # list of alternatives lists (rust)
    expect = []        # (alternatives, seen-expr)
    empties = []
    methods = set()
    sigil = False

    def fresh(pool):
        for _ in range(50):
            n = rng.choice(pool)
            if n not in used and n.replace("r#", "") not in used:
                used.add(n)
                return n
        return None

    # a few wide forms: more than 32 fields in one value set
    wide = f.kind != "Enabled" and rng.random() < 0.04 and not force
    if wide:
        for w in range(rng.randint(33, 40)):
            k = rng.choice([p for p in PLAIN if p[0] in ("u8", "i16", "u64", "i64", "bool", "str", "f64", "u128")])
            fields_src.append(f"w{w} = ctr.tick({ticks}, {k[1]})")
            expect.append(([f"w{w}"], k[2]))
            declared.append([f"w{w}"])
            methods.add(k[3])
            ticks += 1
        nfields = 0
    for fi in range(nfields):
        form = rng.choice(["ident", "ident", "ident", "dotted", "literal", "const", "raw", "short", "short_sigil", "ident_sigil", "empty"] if f.kind != "Enabled" else ["ident", "dotted"])
        forced_sigil = None
        if force and fi == 0 and force["first"] not in ("msgonly", "none"):
            form = force["first"]
            if form in ("?", "%"):
                forced_sigil, form = form, "ident_sigil"
        if f.kind == "Enabled":
            n = fresh(IDENTS if form == "ident" else DOTTED)
            if n is None:
                continue
            fields_src.append(n)
            declared.append([n])
            continue
        # name
        if form in ("ident", "empty"):
            n = fresh(IDENTS)
            if n is None:
                continue
            name_src, alts = n, [n]
        elif form == "dotted":
            n = fresh(DOTTED)
            if n is None:
                continue
            name_src, alts = n, [n]
        elif form == "literal":
            n = fresh(LITERALS)
            if n is None:
                continue
            name_src, alts = '"' + n + '"', [LITERAL_TEXT.get(n, n)]
        elif form == "const":
            c = rng.choice(CONSTS)
            if c[1] in used:
                continue
            used.add(c[1])
            name_src, alts = "{ " + c[0] + " }", [c[1]]
        elif form == "raw":
            n = fresh(RAWS)
            if n is None:
                continue
            name_src, alts = n, [n, n[2:]]
        else:
            name_src, alts = None, None
        if form == "empty":
            fields_src.append(f"{name_src} = tracing::field::Empty")
            declared.append(alts)
            empties.append(alts[0])
            continue
        if form == "ident_sigil":
            # sigil shorthand over a plain local (`?q3`): the field is named after the variable
            var = f"q{len(pre)}_{len(fields_src)}"
            sg = forced_sigil or rng.choice("%?")
            e = rng.choice(DISPLAYABLE if sg == "%" else DEBUGGABLE)
            pre.append(f"let {var} = {e};")
            fields_src.append(f"{sg}{var}")
            fn3 = "disp3" if sg == "%" else "dbg3"
            expect.append(([var], f"Seen::Debug({fn3}(&{e}))"))
            declared.append([var])
            methods.add("debug")
            sigil = True
            continue
        if form in ("short", "short_sigil"):
            # shorthand field `pN.val` (dotted path through a Probe whose Deref ticks)
            var = f"p{ticks}"
            if form == "short":
                k = rng.choice([p for p in PLAIN if not p[0].startswith("error") and p[0] not in ("bytes", "str", "refref_i64")])
                pre.append(f"let {var} = Probe::new(ctr, {ticks}, {k[1]});")
                fields_src.append(f"{var}.val")
                expect.append(([f"{var}.val"], k[2]))
                methods.add(k[3])
            else:
                sg = rng.choice("%?")
                e = rng.choice(DISPLAYABLE if sg == "%" else DEBUGGABLE)
                pre.append(f"let {var} = Probe::new(ctr, {ticks}, {e});")
                fields_src.append(f"{sg}{var}.val")
                fn3 = "disp3" if sg == "%" else "dbg3"
                expect.append(([f"{var}.val"], f"Seen::Debug({fn3}(&{e}))"))
                methods.add("debug")
                sigil = True
            declared.append([f"{var}.val"])
            ticks += 1
            continue
        # name = value
        r2 = rng.random()
        if r2 < 0.2:
            e = rng.choice(DISPLAYABLE)
            fields_src.append(f"{name_src} = %ctr.tick({ticks}, {e})")
            expect.append((alts, f"Seen::Debug(disp3(&{e}))"))
            methods.add("debug")
            sigil = True
        elif r2 < 0.4:
            e = rng.choice(DEBUGGABLE)
            fields_src.append(f"{name_src} = ?ctr.tick({ticks}, {e})")
            expect.append((alts, f"Seen::Debug(dbg3(&{e}))"))
            methods.add("debug")
            sigil = True
        else:
            k = rng.choice(PLAIN)
            fields_src.append(f"{name_src} = ctr.tick({ticks}, {k[1]})")
            expect.append((alts, k[2]))
            methods.add(k[3])
        declared.append(alts)
        ticks += 1

    # message (events only)
    msg_src = None
    msg_expect = None
    want_msg = rng.random() < 0.6 or not fields_src
    if force:
        want_msg = force["first"] == "msgonly" or (force["rest"] and rng.random() < 0.7) or not fields_src
    if f.kind == "Event" and want_msg:
        m = rng.choice(["static", "fmt", "fmt2", "capture", "width"])
        if m == "static":
            text = f"static message {fid}"
            msg_src = rs_str(text)
            msg_expect = f"format!({rs_str(text)})"
        elif m == "fmt":
            e = rng.choice(DISPLAYABLE)
            msg_src = f"\"m{fid} {{}}!\", ctr.tick({ticks}, {e})"
            msg_expect = f"format!(\"m{fid} {{}}!\", {e})"
            ticks += 1
        elif m == "fmt2":
            e1, e2 = rng.choice(DISPLAYABLE), rng.choice(DEBUGGABLE)
            msg_src = f"\"{{}} and {{:?}}\", ctr.tick({ticks}, {e1}), ctr.tick({ticks + 1}, {e2})"
            msg_expect = f"format!(\"{{}} and {{:?}}\", {e1}, {e2})"
            ticks += 2
        elif m == "capture":
            pre.append("let cap = v.u;")
            pre.append("let cap2 = v.s.as_str();")
            msg_src = "\"captured {cap} {cap2:?}\""
            msg_expect = "{ let cap = v.u; let cap2 = v.s.as_str(); format!(\"captured {cap} {cap2:?}\") }"
        else:
            msg_src = f"\"w {{:>5}}|{{:08.3}}\", ctr.tick({ticks}, (v.u as u8)), ctr.tick({ticks + 1}, v.f)"
            msg_expect = "format!(\"w {:>5}|{:08.3}\", (v.u as u8), v.f)"
            ticks += 2
    # an ordinary field that happens to be called `message`, not in first position (only without a
    # format-string message): it is presented where it was declared
    if f.kind == "Event" and msg_src is None and fields_src and not wide and not force and rng.random() < 0.2 and not empties and len(expect) == len(fields_src) == len(declared) and not any(fs.startswith("message") for fs in fields_src):
        pos = rng.randint(1, len(fields_src))
        k = rng.choice([p for p in PLAIN if p[0] in ("u64", "str", "bool", "i64")])
        fields_src.insert(pos, f"message = ctr.tick({ticks}, {k[1]})")
        expect.insert(pos, (["message"], k[2]))
        declared.insert(pos, ["message"])
        ticks += 1
    if f.kind == "Event" and msg_src is not None:
        declared = [["message"]] + declared
        expect = [(["message"], f"Seen::Debug(msg3({msg_expect}))")] + expect
        methods.add("debug")

    # The level shorthands take `name:`/`target:`/`parent:` prefixes only when the first field starts
    # with a plain identifier (`k = ..`); other first fields (dotted, literal, constant names, sigil
    # or dotted shorthand) are a macro-parsing ambiguity there, so such forms use event! instead.
    import re
    # (measured on this tree: a sigil shorthand over a single identifier, `?x` / `%x`, is accepted
    # behind every prefix combination, except behind `parent:` alone when nothing follows it)
    first_sigil_ident = bool(fields_src) and re.match(r"^[?%][a-z_][a-z0-9_]*$", fields_src[0]) is not None
    if f.kind == "Event" and shorthand and prefix and fields_src and not re.match(r"^(r#)?[a-z_][a-z0-9_]* =", fields_src[0]):
        parent_only = all(p.startswith("parent:") for p in prefix)
        rest = len(fields_src) > 1 or msg_src is not None
        if not (first_sigil_ident and (rest or not parent_only)):
            shorthand = False
    # assemble the invocation
    if f.kind == "Event":
        mac = f"tracing::{lvl[2]}!" if shorthand else "tracing::event!"
        head = list(prefix)
        if not shorthand:
            head.append(f"Level::{lvl[0]}")
        braces = msg_src is not None and fields_src and rng.random() < 0.3 and not (first_sigil_ident and prefix and shorthand)
        body = []
        if braces:
            body.append("{ " + ", ".join(fields_src) + " }")
        else:
            body.extend(fields_src)
        if msg_src is not None:
            body.append(msg_src)
        args = ", ".join(head + body)
        if rng.random() < 0.15 and msg_src is None:
            args += ","
        call = f"{mac}({args});"
        ret = "Ret::Unit"
        stmt = call
    elif f.kind == "Span":
        f.name = f"span {fid}" if rng.random() < 0.3 else f"sp{fid}"
        mac = f"tracing::{lvl[2]}_span!" if shorthand else "tracing::span!"
        head = list(prefix)
        if not shorthand:
            head.append(f"Level::{lvl[0]}")
        head.append(rs_str(f.name))
        args = ", ".join(head + fields_src)
        stmt = f"let sp = {mac}({args});"
        ret = "Ret::Span(sp)"
    else:
        which = rng.choice(["enabled", "enabled", "event_enabled", "span_enabled"])
        f.enabled_kind = which
        mac = f"tracing::{which}!"
        head = [p for p in prefix if p.startswith("target:")]
        head.append(f"Level::{lvl[0]}")
        args = ", ".join(head + fields_src)
        stmt = f"let r = {mac}({args});"
        ret = "Ret::Bool(r)"
    f.src = " ".join(pre + [stmt])
    f.run = "\n        ".join(pre + [stmt, ret])
    f.nticks = ticks
    f.declared = declared
    f.expect = expect
    f.empties = empties
    f.rich = len(methods) >= 2 or sigil
    f.mac = mac
    return f


def alts_rs(a):
    return "&[" + ", ".join(rs_str(x) for x in a) + "]"


def emit(forms, seed):
    o = []
    o.append("// @generated by gen/c10.py (corpus seed %d, %d forms). Do not edit." % (seed, len(forms)))
    o.append("#![allow(unused_variables, unused_imports, unused_parens, clippy::all)]")
    o.append("use crate::support::*;")
    o.append("use std::num::*;")
    o.append("use tracing::Level;")
    o.append("pub const SEED: u64 = %d;" % seed)
    o.append("")
    for f in forms:
        o.append(f"fn run_{f.id}(ctr: &Ctr, v: &Vals, px: &Px) -> Ret {{\n        {f.run}\n}}")
        exp = ", ".join(f"({alts_rs(a)}, {e})" for a, e in f.expect)
        o.append(f"fn expect_{f.id}(v: &Vals) -> Vec<(&'static [&'static str], Seen)> {{\n        vec![{exp}]\n}}")
    o.append("")
    o.append("pub static FORMS: &[FormDesc] = &[")
    for f in forms:
        tgt = "None" if f.target is None else f"Some({rs_str(f.target)})"
        nm = "None" if f.name is None else f"Some({rs_str(f.name)})"
        decl = "&[" + ", ".join(alts_rs(a) for a in f.declared) + "]"
        emp = "&[" + ", ".join(rs_str(e) for e in f.empties) + "]"
        o.append(
            f"    FormDesc {{ id: {f.id}, src: {rs_str(f.src)}, mac: {rs_str(f.mac)}, kind: FKind::{f.kind}, level: {f.level}, target: {tgt}, name: {nm}, parent: PKind::{f.parent}, nticks: {f.nticks}, declared: {decl}, empties: {emp}, rich: {'true' if f.rich else 'false'}, run: run_{f.id}, expect: expect_{f.id} }},"
        )
    o.append("];")
    return "\n".join(o) + "\n"


def main():
    ap = argparse.ArgumentParser()
    ap.add_argument("--tier", default="quick")
    ap.add_argument("--seed", type=int, default=0)
    ap.add_argument("--forms", type=int, default=None)
    a = ap.parse_args()
    if a.tier == "thorough":
        seed = 1000 + (a.seed % 1_000_000)
        n = a.forms or 900
    else:
        seed = 1
        n = a.forms or 300
    rng = random.Random(seed)
    forms = [gen_form(rng, i) for i in range(n)]
    # the grid of macro arms: every level shorthand x every prefix combination x the shapes of a
    # first field the shorthands accept there (k = v, ?x, %x, a message only / no field at all),
    # with and without more fields behind it
    for kind, prefixes, firsts in (("Event", ["", "n", "t", "p", "nt", "np", "tp", "ntp"], ["ident", "?", "%", "msgonly"]), ("Span", ["", "t", "p", "tp"], ["ident", "?", "none"])):
        for lv in range(5):
            for pf in prefixes:
                for first in firsts:
                    for rest in (False, True):
                        if first in ("msgonly", "none") and rest:
                            continue
                        forms.append(gen_form(rng, len(forms), dict(kind=kind, lvl=lv, prefix=pf, first=first, rest=rest)))
    n = len(forms)
    text = emit(forms, seed)
    out = OUT if a.tier != "thorough" else OUT.replace("corpus.rs", "corpus_t.rs")
    globals()["OUT"] = out
    old = open(OUT).read() if os.path.exists(OUT) else None
    if old != text:
        with open(OUT, "w") as fh:
            fh.write(text)
        print(f"gen/c10.py: wrote {n} forms (corpus seed {seed})", file=sys.stderr)
    return 0


if __name__ == "__main__":
    sys.exit(main())
