#!/usr/bin/env python3
"""C17 corpus generator: seed -> harness/c17/src/corpus.rs.

Every "twin" is one function written twice with an identical body: `plain_N` and `inst_N`, the
latter carrying a generated `#[tracing::instrument(..)]`. Varied: sync / async / boxed-future
(async-trait style) / methods with &self, &mut self, self receivers; argument patterns (by value,
&, &mut, tuple and struct destructuring, generic, impl Trait, Value and Debug types); return shapes
(unit, value, Result, impl Display; early return, `?`, panic); attribute arguments (name, level in
its three spellings, target, parent, follows_from, skip, skip_all, fields with expressions over the
arguments, ret / err with level and Display / Debug modes).
Bodies report effects through `fx(..)` and take drop-logging `Tok` arguments. For each twin the
generator also writes the descriptor the oracle needs: span name / level / target / parent kind,
the expected (field name, typed value) sequence, expected ret / err events and the call wrappers.
quick: corpus seed 1 into corpus.rs (committed); thorough: seed from VERIF_SEED into corpus_t.rs.
"""
import argparse, os, random, sys

HERE = os.path.dirname(os.path.abspath(__file__))
OUT = os.path.join(HERE, "..", "harness", "c17", "src", "corpus.rs")

LEVELS = [("ERROR", 1, "error", 5), ("WARN", 2, "warn", 4), ("INFO", 3, "info", 3), ("DEBUG", 4, "debug", 2), ("TRACE", 5, "trace", 1)]


def rs_str(s):
    return '"' + s.replace("\\", "\\\\").replace('"', '\\"') + '"'


# argument menu: name -> dict(decl, call, fields [(name, seen-expr)], use, kinds allowed, needs)
def arg_menu(style):
    lt = "'a " if style == "boxed" else ""
    m = {
        "a": dict(decl="a: u32", call="inp.a", fields=[("a", "Seen::U64(inp.a as u64)")], use="a as i64"),
        "b": dict(decl="b: i64", call="inp.b", fields=[("b", "Seen::I64(inp.b)")], use="b % 1000"),
        "s": dict(decl=f"s: &{lt}str", call="inp.s.as_str()", fields=[("s", "Seen::Str(inp.s.clone())")], use="s.len() as i64"),
        "st": dict(decl="st: String", call="inp.s.clone()", fields=[("st", "Seen::Str(inp.s.clone())")], use="st.len() as i64"),
        "flag": dict(decl="flag: bool", call="inp.flag", fields=[("flag", "Seen::Bool(inp.flag)")], use="flag as i64"),
        "fl": dict(decl="fl: f64", call="inp.f()", fields=[("fl", "Seen::F64(inp.f().to_bits())")], use="(fl.is_nan() as i64)"),
        "t": dict(decl="t: Tok", call="Tok::new(1)", fields=[("t", "Seen::Debug(\"Tok(1)\".to_string())")], use="t.id as i64"),
        "t2": dict(decl="mut t2: Tok", call="Tok::new(2)", fields=[("t2", "Seen::Debug(\"Tok(2)\".to_string())")], use="{ t2.id += 0; t2.id as i64 }"),
        "r": dict(decl=f"r: &{lt}Tok", call="&env.tok_r", fields=[("r", "Seen::Debug(\"Tok(9)\".to_string())")], use="r.id as i64"),
        "m": dict(decl=f"m: &{lt}mut Counter", call="&mut env.counter", fields=[("m", "Seen::Debug(format!(\"Counter {{ n: {} }}\", inp.x))")], use="{ m.n = m.n.wrapping_add(1); m.n as i64 }"),
        "xy": dict(decl="(x, y): (i32, i32)", call="(inp.x, inp.y)", fields=[("x", "Seen::Debug(format!(\"{:?}\", inp.x))"), ("y", "Seen::Debug(format!(\"{:?}\", inp.y))")], use="(x as i64) - (y as i64)", names=["x", "y"]),
        "p": dict(decl="P { px, py }: P", call="P { px: inp.x, py: inp.flag }", fields=[("px", "Seen::Debug(format!(\"{:?}\", inp.x))"), ("py", "Seen::Debug(format!(\"{:?}\", inp.flag))")], use="(px as i64) + (py as i64)", names=["px", "py"]),
        "g": dict(decl="g: T", call="inp.b", fields=[("g", "Seen::Debug(format!(\"{:?}\", inp.b))")], use="{ let _c = g.clone(); 1 }", generic="T: std::fmt::Debug + Clone" + (" + 'a" if style == "boxed" else "")),
        "it": dict(decl="it: impl Into<i64> + std::fmt::Debug" + (" + 'a" if style == "boxed" else ""), call="inp.a", fields=[("it", "Seen::Debug(format!(\"{:?}\", inp.a))")], use="it.into()"),
        "nz": dict(decl="nz: std::num::NonZeroU32", call="std::num::NonZeroU32::new(inp.a | 1).unwrap()", fields=[("nz", "Seen::U64((inp.a | 1) as u64)")], use="nz.get() as i64"),
        "w": dict(decl="w: std::num::Wrapping<i32>", call="std::num::Wrapping(inp.x)", fields=[("w", "Seen::I64(inp.x as i64)")], use="w.0 as i64"),
        "o": dict(decl="o: Option<u32>", call="Some(inp.a)", fields=[("o", "Seen::Debug(format!(\"{:?}\", Some(inp.a)))")], use="o.unwrap_or(0) as i64"),
        "sl": dict(decl=f"sl: &{lt}[u8]", call="inp.s.as_bytes()", fields=[("sl", "Seen::Debug(format!(\"{:?}\", inp.s.as_bytes()))")], use="sl.len() as i64"),
        "rs": dict(decl=f"rs: &{lt}String", call="&inp.s", fields=[("rs", "Seen::Str(inp.s.clone())")], use="rs.len() as i64"),
        # span handles for parent = / follows_from = ; always skipped (their Debug text is not stable)
        "psp": dict(decl=f"psp: &{lt}tracing::Span", call="&env.psp", fields=None, use="0"),
        "cause": dict(decl=f"cause: &{lt}tracing::Span", call="&env.cause", fields=None, use="0"),
    }
    for k, v in m.items():
        v.setdefault("names", [k])
    return m


class Twin:
    pass


def gen_twin(rng, tid):
    t = Twin()
    t.id = tid
    style = rng.choice(["sync", "sync", "sync", "async", "async", "boxed", "boxed", "method", "method_async"])
    t.style = style
    # how the boxed-future twins spell the pinning call (or return the async block unboxed)
    # ("inner": the shape older async-trait versions expand to - an async fn declared inside the
    # function and called in `Box::pin(..)`)
    pin = rng.choice(["Box::pin", "Box::pin", "std::boxed::Box::pin", "::std::boxed::Box::pin", None, "inner"])
    menu = arg_menu(style)
    lvl = rng.choice(LEVELS) if rng.random() < 0.6 else None
    t.level = lvl[1] if lvl else 3
    attrs = []
    feature_count = 0
    if lvl:
        sp = rng.choice(["path", "str", "num"])
        attrs.append({"path": f"level = Level::{lvl[0]}", "str": f"level = {rs_str(lvl[2])}", "num": f"level = {lvl[3]}"}[sp])
        feature_count += 1
    t.name = None
    if rng.random() < 0.3:
        t.name = f"custom name {tid}" if rng.random() < 0.5 else f"n{tid}"
        attrs.append(f"name = {rs_str(t.name)}")
        feature_count += 1
    t.target = None
    if rng.random() < 0.3:
        t.target = rng.choice(["tgt", "app::svc", ""])
        attrs.append(f"target = {rs_str(t.target)}")
        feature_count += 1

    # receiver
    recv = None
    if style in ("method", "method_async"):
        recv = rng.choice(["&self", "&mut self", "self"])
    # arguments
    pool = [k for k in menu if k not in ("psp", "cause")]
    if style == "boxed":
        pool = [k for k in pool if k not in ("it",)]
    n = rng.choice([0, 1, 1, 2, 2, 3, 3, 4])
    chosen = []
    used_names = set()
    for _ in range(n):
        k = rng.choice(pool)
        if k in chosen or any(nm in used_names for nm in menu[k]["names"]):
            continue
        # only one argument may borrow env mutably / immutably in a conflicting way
        if k == "m" and "r" in chosen or k == "r" and "m" in chosen:
            continue
        chosen.append(k)
        used_names.update(menu[k]["names"])
    t.parent = "Contextual"
    pr = rng.random()
    if pr < 0.15:
        attrs.append("parent = None")
        t.parent = "Root"
        feature_count += 1
    elif pr < 0.3:
        chosen.append("psp")
        attrs.append("parent = psp")
        t.parent = "Explicit"
        feature_count += 1
    t.follows = False
    if rng.random() < 0.2:
        chosen.append("cause")
        attrs.append(rng.choice(["follows_from = [cause]", "follows_from = Some(cause)"]))
        t.follows = True
        feature_count += 1
    rng.shuffle(chosen)

    # skip / skip_all
    skip_all = False  # this version of the attribute has no skip_all
    skips = []
    all_param_names = (["self"] if recv else []) + [nm for k in chosen for nm in menu[k]["names"]]
    if skip_all:
        attrs.append("skip_all")
        feature_count += 1
    else:
        for k in chosen:
            if k in ("psp", "cause"):
                skips.extend(menu[k]["names"])
            elif rng.random() < 0.25:
                # skipping one name of a destructured pattern is allowed too
                nm = rng.choice(menu[k]["names"])
                skips.append(nm)
        if recv and rng.random() < 0.4:
            skips.append("self")
        if skips:
            attrs.append("skip(" + ", ".join(skips) + ")")
            if any(s not in ("psp", "cause") for s in skips):
                feature_count += 1

    # expected parameter fields
    exp_fields = []
    if not skip_all:
        if recv and "self" not in skips:
            exp_fields.append(("self", "Seen::Debug(format!(\"Svc({})\", inp.b))"))
        for k in chosen:
            if menu[k]["fields"] is None:
                continue
            for (nm, seen) in menu[k]["fields"]:
                if nm not in skips:
                    exp_fields.append((nm, seen))

    # custom fields
    custom = []
    if rng.random() < 0.45:
        cand = [("lit", "lit = \"x\"", "Seen::Str(\"x\".to_string())"), ("num", "num = 7", "Seen::I64(7)"), ("yes", "yes = true", "Seen::Bool(true)"), ("empty", "empty = tracing::field::Empty", None)]
        if "a" in chosen:
            cand.append(("extra", "extra = a.wrapping_add(1)", "Seen::U64(inp.a.wrapping_add(1) as u64)"))
            cand.append(("adbg", "adbg = ?a", "Seen::Debug(format!(\"{:?}\", inp.a))"))
        if "b" in chosen:
            cand.append(("disp", "disp = %b", "Seen::Debug(format!(\"{}\", inp.b))"))
        if "s" in chosen:
            cand.append(("slen", "slen = s.len()", "Seen::U64(inp.s.len() as u64)"))
        if "xy" in chosen:
            cand.append(("sum", "sum = x.wrapping_add(y)", "Seen::I64(inp.x.wrapping_add(inp.y) as i64)"))
        if "p" in chosen:
            cand.append(("pxf", "pxf = px", "Seen::I64(inp.x as i64)"))
        if "t" in chosen:
            cand.append(("tid", "tid = t.id", "Seen::U64(1)"))
        if "r" in chosen:
            cand.append(("rid", "rid = r.id", "Seen::U64(9)"))
        if recv:
            cand.append(("base", "base = self.base", "Seen::I64(inp.b)"))
        # dotted names that share a segment with a parameter: the parameter stays a field of its own
        if "a" in chosen:
            cand.append(("req.a", "req.a = a", "Seen::U64(inp.a as u64)"))
            cand.append(("a.next", "a.next = a.wrapping_add(2)", "Seen::U64(inp.a.wrapping_add(2) as u64)"))
            # a custom field with the plain name of a parameter replaces that parameter's field
            cand.append(("a", "a = a.wrapping_add(5)", "Seen::U64(inp.a.wrapping_add(5) as u64)"))
        if "b" in chosen:
            cand.append(("http.b", "http.b = %b", "Seen::Debug(format!(\"{}\", inp.b))"))
            cand.append(("b", "b = ?b", "Seen::Debug(format!(\"{:?}\", inp.b))"))
        if "s" in chosen:
            cand.append(("s.len", "s.len = s.len()", "Seen::U64(inp.s.len() as u64)"))
        rng.shuffle(cand)
        special = [c for c in cand if "." in c[0] or c[0] in all_param_names]
        if special and rng.random() < 0.5:
            c0 = rng.choice(special)
            cand.remove(c0)
            cand.insert(0, c0)
        for (nm, src, seen) in cand[: rng.choice([1, 1, 2, 3])]:
            if nm in all_param_names:
                if nm not in ("a", "b") or nm in skips:
                    continue
                # override: the parameter's own field disappears, the custom one is shown instead
                exp_fields = [(n2, s2) for (n2, s2) in exp_fields if n2 != nm]
            custom.append(src)
            if seen is not None:
                exp_fields.append((nm, seen))
        if custom:
            attrs.append("fields(" + ", ".join(custom) + ")")
            feature_count += 1
    t.exp_fields = exp_fields

    # return shape
    shape = rng.choice(["unit", "value", "value", "result", "result", "result_str", "display"])
    t.shape = shape
    ret_ty = {"unit": "()", "value": "i64", "result": "Result<i64, MyErr>", "result_str": "Result<String, MyErr>", "display": "impl std::fmt::Display"}[shape]
    is_result = shape in ("result", "result_str")
    final = {"unit": "()", "value": "acc", "result": "Ok(acc)", "result_str": "Ok(format!(\"v{}\", acc))", "display": "acc"}[shape]
    early_val = {"unit": "()", "value": "-acc", "result": "Err(MyErr(acc))", "result_str": "Err(MyErr(acc))", "display": "acc.wrapping_mul(2)"}[shape]
    # ret / err
    t.ret = None
    t.err = None
    want_err = is_result and rng.random() < 0.55
    # Twins that spell the pinning call with a qualified path carry no ret / err: if the attribute
    # stopped recognising that spelling, ret / err would turn the twin into a type error and the
    # whole corpus would stop building, hiding the behavioural difference this check is after.
    no_events = style == "boxed" and pin not in ("Box::pin",)
    if no_events:
        want_err = False
    if rng.random() < 0.45 and not no_events:
        mode = rng.choice(["", "", "Display", "Debug"]) if shape != "display" else "Display"
        if shape == "unit" and mode == "Display":
            mode = ""
        # without `err`, `ret` presents the whole Result, which has no Display
        if is_result and not want_err and mode == "Display":
            mode = "Debug"
        rl = rng.choice(LEVELS) if rng.random() < 0.4 else None
        parts = [p for p in [mode, (f"level = Level::{rl[0]}" if rl and rng.random() < 0.5 else (f"level = {rs_str(rl[2])}" if rl else ""))] if p]
        attrs.append("ret" + (f"({', '.join(parts)})" if parts else ""))
        t.ret = dict(level=(rl[1] if rl else t.level), display=(mode == "Display"))
        feature_count += 1
    if want_err:
        mode = rng.choice(["", "", "Display", "Debug"])
        el = rng.choice(LEVELS) if rng.random() < 0.4 else None
        parts = [p for p in [mode, (f"level = Level::{el[0]}" if el and rng.random() < 0.5 else (f"level = {rs_str(el[2])}" if el else ""))] if p]
        attrs.append("err" + (f"({', '.join(parts)})" if parts else ""))
        t.err = dict(level=(el[1] if el else 1), debug=(mode == "Debug"))
        feature_count += 1

    # body
    is_async = style in ("async", "boxed", "method_async")
    body = []
    body.append(f"fx({tid * 10 + 1});")
    body.append("let mut acc: i64 = 0;")
    for k in chosen:
        body.append(f"acc = acc.wrapping_add({menu[k]['use']});")
    if recv:
        if recv == "&mut self":
            body.append("self.calls += 1;")
        body.append("acc = acc.wrapping_add(self.base % 100);")
    npolls = 1
    if is_async:
        for _ in range(rng.choice([0, 1, 1, 2])):
            body.append("yield_now().await;")
            body.append(f"fx({tid * 10 + 2});")
            npolls += 1
    t.has_early = rng.random() < 0.4
    if t.has_early:
        if rng.random() < 0.5:
            body.append(f"if acc.rem_euclid(3) == 0 {{ fx({tid * 10 + 3}); return {early_val}; }}")
        else:
            # the early exit hides its `return` in a statement-position macro
            body.append(f"if acc.rem_euclid(3) == 0 {{ fx({tid * 10 + 3}); crate::bail_with!({early_val}); }}")
    t.has_q = is_result and rng.random() < 0.5
    if t.has_q:
        body.append("let v = helper(acc)?;")
        body.append("acc = acc.wrapping_add(v);")
    t.has_panic = rng.random() < 0.25
    if t.has_panic:
        body.append("if acc.rem_euclid(7) == 2 { panic!(\"boom {}\", acc); }")
    if is_async and rng.random() < 0.4:
        body.append("yield_now().await;")
    body.append(f"fx({tid * 10 + 4});")
    body.append(final)
    body_src = "\n        ".join(body)

    generics = [menu[k]["generic"] for k in chosen if "generic" in menu[k]]
    params = [menu[k]["decl"] for k in chosen]
    # the arguments of the attribute may come in any order
    if rng.random() < 0.6:
        rng.shuffle(attrs)
    attr_src = "#[tracing::instrument" + (f"({', '.join(attrs)})" if attrs else "") + "]"
    t.attr = attr_src
    t.fn_name = f"inst_{tid}"
    t.span_name = t.name if t.name is not None else t.fn_name

    def fn_src(name, with_attr):
        a = (attr_src + "\n    ") if with_attr else ""
        if style in ("sync", "async"):
            gen = f"<{', '.join(generics)}>" if generics else ""
            kw = "async fn" if style == "async" else "fn"
            return f"{a}{kw} {name}{gen}({', '.join(params)}) -> {ret_ty} {{\n        {body_src}\n    }}"
        if style == "boxed":
            gen = "<" + ", ".join(["'a"] + generics) + ">"
            rt = ret_ty if shape != "display" else "i64"
            if pin is None:
                return f"{a}fn {name}{gen}({', '.join(params)}) -> impl Future<Output = {rt}> + 'a {{\n        async move {{\n        {body_src}\n        }}\n    }}"
            if pin == "inner":
                fwd = []
                for k in chosen:
                    nm = menu[k]["names"]
                    fwd.append(nm[0] if len(nm) == 1 else {"xy": "(x, y)", "p": "P { px, py }"}[k])
                return (f"{a}fn {name}{gen}({', '.join(params)}) -> Pin<Box<dyn Future<Output = {rt}> + 'a>> {{\n"
                        f"        async fn __{name}{gen}({', '.join(params)}) -> {rt} {{\n        {body_src}\n        }}\n"
                        f"        Box::pin(__{name}({', '.join(fwd)}))\n    }}")
            return f"{a}fn {name}{gen}({', '.join(params)}) -> Pin<Box<dyn Future<Output = {rt}> + 'a>> {{\n        {pin}(async move {{\n        {body_src}\n        }})\n    }}"
        gen = f"<{', '.join(generics)}>" if generics else ""
        kw = "async fn" if style == "method_async" else "fn"
        return f"{a}{kw} {name}{gen}({', '.join([recv] + params)}) -> {ret_ty} {{\n        {body_src}\n    }}"

    if style == "boxed" and shape == "display":
        t.shape = shape = "value"
        ret_ty = "i64"
        if t.ret and t.ret["display"]:
            pass
    t.plain_src = fn_src(f"plain_{tid}", False)
    t.inst_src = fn_src(f"inst_{tid}", True)
    t.is_method = recv is not None
    t.recv = recv

    # call wrappers
    call_args = ", ".join(menu[k]["call"] for k in chosen)
    fmt = "\"{}\"" if shape == "display" else "\"{:?}\""

    def wrapper(kind):
        fname = f"{kind}_{tid}"
        if recv:
            callee = {"&self": f"env.svc.{fname}", "&mut self": f"env.svc.{fname}", "self": f"std::mem::replace(&mut env.svc, Svc::new(0)).{fname}"}[recv]
            # arguments borrowing env cannot be combined with a receiver that borrows env: use svc2
            callee = callee.replace("env.svc", "env.svc")
        else:
            callee = fname
        aw = ".await" if is_async else ""
        desc = "describe_display(&r)" if shape == "display" else "r.describe()"
        return f"fn call_{kind}_{tid}<'a>(inp: &'a In, env: &'a mut Env) -> Pin<Box<dyn Future<Output = Out> + 'a>> {{\n        Box::pin(async move {{ let r = {callee}({call_args}){aw}; {desc} }})\n    }}"

    t.wrap_plain = wrapper("plain")
    t.wrap_inst = wrapper("inst")
    t.chosen = chosen
    t.is_async = is_async
    t.npolls = npolls
    t.rich = feature_count >= 2 or (is_async and npolls >= 2)
    t.is_result = is_result
    t.src_text = attr_src + " " + ("async " if style in ("async", "method_async") else "") + f"fn({', '.join(([recv] if recv else []) + params)}) -> {ret_ty} [{style}" + (f" via {pin or 'a bare async block'}" if style == "boxed" else "") + "]"
    # methods: an argument borrowing env.counter / env.tok_r together with env.svc is fine (disjoint fields)
    return t


def emit(twins, seed):
    o = []
    o.append("// @generated by gen/c17.py (corpus seed %d, %d twins). Do not edit." % (seed, len(twins)))
    o.append("#![allow(unused_variables, unused_imports, unused_mut, unused_parens, unreachable_code, clippy::all)]")
    o.append("use crate::support::*;")
    o.append("use std::future::Future;")
    o.append("use std::pin::Pin;")
    o.append("use tracing::Level;")
    o.append("pub const SEED: u64 = %d;" % seed)
    o.append("")
    methods = [t for t in twins if t.is_method]
    for t in twins:
        if t.is_method:
            continue
        o.append("    " + t.plain_src)
        o.append("    " + t.inst_src)
    o.append("impl Svc {")
    for t in methods:
        o.append("    " + t.plain_src)
        o.append("    " + t.inst_src)
    o.append("}")
    for t in twins:
        o.append("    " + t.wrap_plain)
        o.append("    " + t.wrap_inst)
        exp = ", ".join(f"({rs_str(n)}, {s})" for n, s in t.exp_fields)
        o.append(f"fn fields_{t.id}(inp: &In) -> Vec<(&'static str, Seen)> {{ vec![{exp}] }}")
    o.append("")
    o.append("pub static TWINS: &[TwinDesc] = &[")
    for t in twins:
        tgt = "None" if t.target is None else f"Some({rs_str(t.target)})"
        ret = "None" if t.ret is None else f"Some(EvSpec {{ level: {t.ret['level']}, alt: {'true' if t.ret['display'] else 'false'} }})"
        err = "None" if t.err is None else f"Some(EvSpec {{ level: {t.err['level']}, alt: {'true' if t.err['debug'] else 'false'} }})"
        o.append(
            f"    TwinDesc {{ id: {t.id}, src: {rs_str(t.src_text)}, span_name: {rs_str(t.span_name)}, level: {t.level}, target: {tgt}, parent: PKind::{t.parent}, follows: {'true' if t.follows else 'false'}, is_async: {'true' if t.is_async else 'false'}, is_result: {'true' if t.is_result else 'false'}, display_ret: {'true' if t.shape == 'display' else 'false'}, ret: {ret}, err: {err}, rich: {'true' if t.rich else 'false'}, fields: fields_{t.id}, call_plain: call_plain_{t.id}, call_inst: call_inst_{t.id} }},"
        )
    o.append("];")
    return "\n".join(o) + "\n"


def main():
    ap = argparse.ArgumentParser()
    ap.add_argument("--tier", default="quick")
    ap.add_argument("--seed", type=int, default=0)
    ap.add_argument("--twins", type=int, default=None)
    a = ap.parse_args()
    if a.tier == "thorough":
        seed = 1000 + (a.seed % 1_000_000)
        n = a.twins or 500
        out = OUT.replace("corpus.rs", "corpus_t.rs")
    else:
        seed = 1
        n = a.twins or 200
        out = OUT
    rng = random.Random(seed)
    twins = [gen_twin(rng, i) for i in range(n)]
    text = emit(twins, seed)
    old = open(out).read() if os.path.exists(out) else None
    if old != text:
        with open(out, "w") as fh:
            fh.write(text)
        print(f"gen/c17.py: wrote {n} twins (corpus seed {seed})", file=sys.stderr)
    return 0


if __name__ == "__main__":
    sys.exit(main())
