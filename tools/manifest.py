#!/usr/bin/env python3
"""Regenerates /verif/MANIFEST.json from the table below (single source of truth)."""
import json, os, subprocess
VERIF = os.path.dirname(os.path.dirname(os.path.abspath(__file__)))
ALL = [f"C{i:02d}" for i in range(1, 21)]

HOOK_COMMITS = subprocess.run(["git", "-C", "/repo", "log", "--format=%h %s", "--grep", "^verif hook"], capture_output=True, text=True).stdout.strip().splitlines()

CHECKS = {
 "C15": dict(
   category="fault_enumeration", design="DESIGN.md §4 C15",
   technique="proptest-generated configurations, producer step lists, writer pacing (gate) and fault scripts (failing write / flush indices) against a scripted underlying writer; invariants over its call log",
   text="Queue capacity 1-8, lossy and non-lossy, 1-4 producer threads, steps {offer lines, stall the underlying writer, release it, settle, drop the guard at any point (also with a backlog, also with producers offering afterwards)} and a generated subset of failing write and flush attempts. Checked on the scripted writer's log: every write is one whole offered buffer, none twice, per-producer order kept; lossy: written + dropped_lines() == offered; non-lossy: nothing dropped and every accepted line written; a failed write loses only that line; after the guard drop returns every line accepted before it was attempted, a flush followed, the writer was dropped exactly once, nothing touched it afterwards and the drop did not run into its shutdown timeout.",
   note="Real threads without schedule control: only schedule-independent invariants; a case that cannot progress in 10 s is inconclusive (exit 2). The gate is open while the guard is dropped (stalls beyond the documented 100 ms / 1 s timeouts are outside the property). Runs with 8 shards to keep timing benign. Found and fixed F11."),
 "C16": dict(
   category="exploration", design="DESIGN.md §4 C16",
   technique="proptest-generated configurations and clock-step/write histories under an injected clock; oracle = (current file, next boundary) reference model with an own calendar conversion, directory contents compared with the model after every write",
   text="Rotation minutely/hourly/daily/never x optional prefix x optional suffix x optional file limit 1-4 x start instant 1971..9998 (biased to the last minute of month and year ends, Feb 28/29, Y2K) x up to 14 (thorough 30) steps: a clock step {same instant, small and large forward steps, exactly to the next boundary -1/0/+1 s, 1-5 periods ahead, 1-7200 s backwards} then a write of a unique payload through Write, or through MakeWriter from 2-6 threads released at one instant. After every write the directory's files and their bytes must equal the model: every payload whole, once, in order, in the file named for its period (concurrent writes at a rotation instant: old or new file), exactly one new file per boundary crossed, none for standing still or going back, and with a limit at most that many log files with the oldest removed first.",
   note="The clock is the cfg-guarded override tracing_appender::rolling::verif_clock. Pruning order is judged by the birth times the code itself reads; equal birth times are tolerated. Threads are real threads released by a barrier (no schedule control): only schedule-independent outcomes are asserted."),
 "C18": dict(
   category="exploration", design="DESIGN.md §4 C18",
   technique="proptest-generated cases, one fresh process each: (a) log records x bridge configuration x collector filters with a model of who must accept; (b) macro / span-lifecycle histories with the first collector installation at a generated position against a recording log::Log; (c) complete enumeration of the level conversions",
   text="(a) LogTracer built with a generated ignore list and log max level; generated records (5 levels; targets from an alphabet with ignored prefixes, look-alikes, \"log\" and arbitrary text; arbitrary messages; file/line/module present or absent) through four routes (installed logger, log! macro, a local LogTracer, format_trace) while generated collectors (level filter x hint x target filter; scoped, global or none) are current: exactly one event at the current collector iff it accepts the record's own level and target and the route's documented gates pass, none otherwise; the event carries the message and normalized_metadata() returns target, level, file, line and module path. (b) tracing built with the log feature and a recording logger: 11 event and 6 span macro call sites with generated values, span new/enter/exit/record/drop, creating a Dispatch without installing it, then the first installation (scoped, scoped-and-dropped, global, on another thread, with_default) at a generated position: before it every step gives exactly one log record with the documented level and target whose text contains the message and every name=value, afterwards none. (c) Level / LevelFilter / Metadata conversions are mutually inverse and order preserving.",
   note="The logger and the has-been-set flag are one-shot process state, hence a child process per case. With log's max level below TRACE, span enter/exit/close records (TRACE records that the code gates by the span's own level) are tolerated either way. Log text is judged by containment, not exact format."),
 "C10": dict(
   category="exploration", design="DESIGN.md §4 C10",
   technique="generated program corpus (gen/c10.py: macro invocations from a grammar of prefixes x field forms x value kinds x message forms, each with counting wrappers and an expected typed visit sequence) driven by proptest-generated values, collector filtering configurations and run orders; oracle = descriptor vs. what a typed recording collector saw",
   text="300 (thorough 900, regenerated from VERIF_SEED) generated invocations of span!/event!/the ten level shorthands/enabled!/event_enabled!/span_enabled! with name:/target:/parent: prefixes, 0-6 fields of the forms name = value, % and ? sigils, shorthand and sigil shorthand (through a Deref that counts evaluations), dotted, string-literal, constant and r# names, Empty, over 37 value kinds (all integer widths, NonZero, Wrapping, f32/f64, bool, str/String/Box<str>, bytes, references, Box, display()/debug(), error chains) and literal / positional / captured / width-precision messages. Each case runs 1-6 (form, values) pairs with boundary-biased values under a collector with an optional max level hint, per-level interest never/sometimes/always, per-level enabled() answers and per-target never/off overrides. Enabled: exactly one new_span/event with the macro's level, target, name, parent and declared field names in order; the visitor sees each valued field once, in declaration order (message first), through the method of its type with the exact value (bit-exact floats, Display/Debug text for sigils); every expression evaluated exactly once; Empty not visited, later record of an Empty field presented once, record of an undeclared name ignored. Disabled by the level cap, interest never, or enabled() false: no expression evaluated, no collector call, a disabled span handle.",
   note="Built without tracing's log feature. r# names are accepted under either spelling. Forms the macros reject at compile time are outside the property; the generator's grammar avoids the one known parsing ambiguity (a prefix followed by a non-identifier first field in a level shorthand) by using event! there."),
 "C17": dict(
   category="exploration", design="DESIGN.md §4 C17",
   technique="generated program corpus (gen/c17.py: twin functions, plain and #[instrument]ed, from a grammar of function styles x argument patterns x return shapes x attribute arguments) driven by proptest-generated inputs, collector modes and poll schedules through one deterministic executor; oracle = differential twin + descriptor vs. recording collector log",
   text="200 (thorough 500, regenerated from VERIF_SEED) generated twins: sync / async / boxed-future (Box::pin spelled three ways, or a bare async block) / methods with &self, &mut self, self; 0-4 arguments from 19 patterns (Value and Debug types, &, &mut, tuple and struct destructuring, generic, impl Trait, drop-logging tokens); return shapes unit / value / Result / impl Display with early return, `?` and panic; attribute arguments level (3 spellings), name, target, parent = None or a span argument, follows_from, skip, fields over the arguments (sigils, Empty), ret / err with level and Display / Debug. Each case runs 1-3 (twin, inputs) calls, first the plain then the instrumented variants, under the same interleaving poll schedule and one of: recording collector, interest never, enabled() false, max-level hint 1-5, no collector, optionally inside an outer span. Differential: same return value / panic payload, same effect sequence, same drop counts, same state of &mut arguments, same number of polls. Span log: exactly one span per call with the configured name, level, target, parent, follows_from and typed fields (skipped absent); entered once per call (sync) / per poll (async), never outside the call; every body effect inside it; ret / err events with the right level, target and value, inside the span; nothing when disabled.",
   note="This version of the attribute has no skip_all (not generated). Drop order is not compared, drop counts are. An async twin's span may be entered once more than it is polled (the inner future is dropped inside the span). ret alone on a Result-returning function presents the whole Result. Found and fixed F23 (target before parent / follows_from rejected at compile time)."),
 "C13": dict(
   category="exploration", design="DESIGN.md §4 C13",
   technique="proptest-generated (formatter, options, writer expression, multi-thread workload) cases; oracle = denotation of the writer expression over recording sinks + per-record predicates on the bytes of each individual write call",
   text="Full/compact/pretty/json formatters with generated options (target, level, thread ids/names, file, line, ansi, timer, span events) write through a generated writer expression (with_max_level, with_min_level, with_filter, and, or_else, BoxMakeWriter, depth <= 3) over three recording sinks while 1-8 threads concurrently run nested spans and events through the real macros, optionally after an event whose Debug impl panics. Each selected sink must see exactly one make_writer_for (with the event's metadata) and exactly one write holding the whole newline-terminated record (one line except pretty), per thread in order; unselected sinks nothing; the record must contain the level, the event's fields and the spans in scope in the documented order, and no text of an aborted record.",
   note="Field values contain no raw newlines. Concurrency is real threads released by a barrier (no schedule control): only schedule-independent invariants are asserted. Found and fixed F7 (stale buffer after a caught panic)."),
 "C14": dict(
   category="exploration", design="DESIGN.md §4 C14",
   technique="proptest-generated values/options/record histories through Dispatch on static metadata with hostile names; every output line parsed by an own strict RFC 8259 parser (duplicate keys rejected, numbers as text) and compared with a model under the stated type mapping",
   text="Span/event callsites whose names, targets and field names contain quotes, backslashes, control characters, U+2028 and non-ASCII text are exercised with generated values (all integer widths and extremes, floats incl. NaN/inf/-0.0/subnormals/round-trip-critical values, bools, hostile Unicode strings, bytes, errors, Display/Debug wrappers), all combinations of flatten_event/current_span/span_list/target/level/thread options, span chains of depth 0-3 with 0-4 later record calls before or after entering, and events with or without explicit parents. Every record must be one line, one JSON object with unique keys, carry every event and span field with a faithful value (last write wins) and list the entered spans root to leaf.",
   note="`spans` is compared with the entered spans (as with_span_list documents), `span` with the event's parent. Reserved-key collisions excluded as in the property. Found and fixed F10 (escaped field names lose later records) and F22 (float drift through serde_json's default parser)."),
 "C11": dict(
   category="exploration", design="DESIGN.md §4 C11",
   technique="grammar-based generation of directive ASTs printed to strings; reference evaluator on the AST (most specific prefix, replace-on-duplicate, span scope with value matchers); differential Targets vs EnvFilter vs reference; Display->parse round trip; span-scope histories",
   text="Static tables (1-6 directives over 9 targets with shared prefixes, levels by name in any case or digit, bare level/target, duplicates in any order) are parsed by Targets and EnvFilter, rebuilt programmatically, round-tripped through Display, and evaluated on 90 static metadata through would_enable and through delivery with macro-style gating as global layer and as per-layer filter. Span-scoped cases combine static and `target[span{field=value}]=level` directives with histories of span open (with values) / record / enter / exit / events / probe spans, also against the filter reparsed from its Display output; an event must be enabled exactly when the statics or an entered matching span allow its level.",
   note="F8's trigger region (directive level below the span's level) is avoided by construction (context spans are ERROR). Field-list directives go to EnvFilter only; Targets' handling of them is recorded as open findings F9/F13 replayed from raw strings. Re-recording a field and records after entering are outside the documented behaviour and not generated. Found and fixed the Directive multi-field parsing bug."),
 "C12": dict(
   category="exploration", design="DESIGN.md §4 C12",
   technique="proptest-generated reload histories in a fresh child process on two stepped threads plus a helper thread; oracle = reference semantics of the value that is current by the model; hook-driven emission between unlock and cache rebuild",
   text="A stack with one reloadable Option<filter> (global layer inside/outside, or per-layer filter) and an unfiltered neighbour is driven through macro callsites (15 level x target) on two threads interleaved with reload/modify between LevelFilter, Targets, static EnvFilter and None. After each reload every emission (first hit or cached, either thread) must be delivered iff the new value accepts it, the neighbour must be unaffected by a per-layer filter, LevelFilter::current() must not be below what the new value accepts (exact for a lone LevelFilter). An emission forced between write-unlock and cache rebuild (hook), or while modify holds the lock, must be judged by the old or the new value. After the collector is dropped reload must return an is_dropped error.",
   note="Racing is explored at one hook point and one lock-held window only (sequentially consistent, hook granularity). Trusts the cfg-guarded yield point in reload::Handle::modify."),
 "C09": dict(
   category="exploration", design="DESIGN.md §4 C09",
   technique="proptest-generated wrapped stacks and Collect-API workloads; differential (wrapped vs wrapper-stripped stack, per-leaf logs with normalised ids) plus exactly-once / inner-before-outer / veto invariants on the stripped run",
   text="For a generated tree of 1-5 recording layers with nested pass-through wrappers (Box, Some, one-element Vec, reload, Identity; None and [] as siblings; Box/Arc collector; Arc/reload/Some around filters) over a Registry or an id-changing base collector, the same workload over every Collect method (callsite registration, enabled, new_span, record, follows_from, event_enabled, event, enter, exit, clone_span/id change, try_close, on_register_dispatch) is run against the wrapped and the stripped stack on fresh threads; every leaf's log and the base collector's log must be identical. On unfiltered stripped stacks each operation must reach every leaf exactly once (zero times after a veto), inner leaves and the collector before outer ones; each callsite and the dispatcher registration exactly once.",
   note="Multi-element Vecs are C07/C08's subject. The order clause is not asserted for callsite/dispatcher registration (Layered asks the outer layer first by design). Found and fixed F4, F4b, F5, F20 (and F19 via C07)."),
 "C08": dict(
   category="exploration", design="DESIGN.md §4 C08",
   technique="generated and enumerated (depth<=2 over a 10-leaf alphabet) filter expressions and stack shapes; metamorphic oracle: cached path (summary) vs the implementation's own uncached dynamic decision on 60 static metadata x 6 span contexts",
   text="For each generated stack (layer trees with Filtered/Layered/Vec/Option/Box/Identity/reload nodes and global filter layers anywhere; filters over level, targets, env tables, raw env directives incl. span-scoped ones, closures with true upper-bound hints, Option, Arc, reload, and/or/not) every one of 60 static Metadata is queried in 6 span contexts through Dispatch::enabled + direct dispatch, bypassing the macro caches. never => no layer receives it; always => enabled() is true and skipping enabled() (what the macro does) delivers to exactly the same layers; level above the published hint => no layer receives it. Depth<=1 (quick) / depth<=2 (thorough) expressions over a fixed alphabet are enumerated completely for two shapes.",
   note="Implementation-relative: the dynamic decision is the code's own; filter semantics themselves are C07/C11. Open finding F8 (EnvFilter span-scoped directive below the span's level) is excluded per (directive, metadata) and reported from a committed reproducer. Found and fixed F6/F17/F18."),
 "C07": dict(
   category="exploration", design="DESIGN.md §4 C07",
   technique="proptest-generated (stack shape, filter expressions, macro workload) cases in a fresh child process; per-leaf delivery, lookup_current and scope compared with a reference evaluator of the filters on the model's filtered view",
   text="1-2 generated stacks (trees of <=6 recording leaves under plain/Filtered/Layered/Vec/Option/Box nodes; filters from level, targets, static env directives, filter_fn, a context-dependent dynamic_filter_fn, and/or/not; 0-2 top-level global filter layers inside or outside) are driven through the real macros (events, spans, enter/exit/record/close, enabled! probes, emissions aborted by a panicking field) on two threads, so interest caches, max-level hints and the per-thread filter bitmap are all in play. After every operation each leaf must have received exactly what the globals and the filters on its own path accept, and must see exactly its accepted spans in lookup_current()/scope().",
   note="Global filter layers only at top level (documented exclusion). Spans stay on their thread with LIFO exit. Open finding F3 (enabled! / aborted emission leaves filter bits) is steered around and reported from two committed reproducers. Found and fixed F14/F15/F16 (fix: commits in /repo)."),
 "C05": dict(
   category="exploration", design="DESIGN.md §4 C05",
   technique="proptest-generated span-forest programs on stepped OS threads against two Registry+recording-layer stacks in a fresh child process; per-operation comparison with a reference-count model and outside lookups",
   text="Programs of create(contextual/root/explicit parent)/clone/drop/enter/entered/guard drops in any order/Span::current/events/SpanTrace/default switches over 3 threads. After every operation each layer's callbacks must match the model: on_close exactly once on every layer at the operation that takes the model reference count (handles + entered threads + open children) to zero, children before parents, the span's name, extensions serial and ancestor chain readable inside on_close; from outside every live span is readable with its own serial, every closed id is gone or belongs to a newer span, live ids are unique; at the end everything has closed.",
   note="Sequential histories on stepped threads: concurrent last-reference races (schedule clause) are not explored. Open finding F2 (exit / cascading close under a foreign or absent default) is steered around by construction (excluded_known counts the skipped operations) and reported from three committed reproducers."),
 "C06": dict(
   category="exploration", design="DESIGN.md §4 C06",
   technique="same registry interpreter as C05; oracle is a per-thread entered-stack model compared with lookup_current/Span::current, parents, scopes and SpanTrace contents observed inside layer callbacks and from outside",
   text="After every operation: inside each callback ctx.lookup_current() equals the thread's most recently entered, not yet exited span; Span::current() on every thread likewise; contextual spans/events get that span as parent, explicit parent/root override it; scope() of every live span and of every event is the ancestor chain leaf to root and from_root() the reverse; SpanTrace::with_spans yields the chain at capture time even after every handle of the chain is dropped; all ancestors of live spans stay readable.",
   note="Same-thread re-entry is excluded from the current-span clauses as the property states. F2-triggering operations are excluded as in C05."),
 "C01": dict(
   category="exploration", design="DESIGN.md §4 C01",
   technique="proptest-generated collector/filter histories on stepped OS threads in a fresh child process, judged after every emission against the current collector's own filter model (both directions)",
   text="Histories of create(filter)/drop/install/uninstall/set-global/emit(event|span at 15 level x target macro callsites)/enabled!/rebuild/flip/reconfigure over 3 threads and 4 collector slots with self-consistent filters (level x target prefixes x static|dynamic x true-upper-bound hint). After every emission the recording collectors must show exactly one delivery to the thread's current collector iff its filter accepts at that moment, and none to anyone else; Span::is_disabled and enabled! must agree. One fresh process per history so every callsite's first hit and every cache state is reachable.",
   note="Sequential histories (racing registration is C04). Default cargo features, so the compile-time max level stage is TRACE and never bites. Probes/is_disabled judged only when the thread has a current collector."),
 "C03": dict(
   category="exploration", design="DESIGN.md §4 C03",
   technique="proptest-generated Span-API programs (stateful, 3 stepped threads, 2 recording collectors) compared call-by-call with a reference model plus whole-log balance invariants",
   text="Programs over span!/clone/drop/enter/entered/exit/in_scope/record/follows_from/Span::current/or_current and Instrumented futures (tracing and tracing-futures) polled 0..n times and dropped at any point, on threads whose default is the span's own collector, another recorder or none. After every operation each collector's log must equal the model's exact expected call list (kind, id, thread, parent, fields); at the end every id has one new_span, try_close = 1 + clone_span, balanced enter/exit per thread, nothing after the last close, and no call on a foreign collector.",
   note="Slots borrowed by a live enter() guard are not moved (borrowck would forbid it). Futures are polled with a no-op waker on the stepped threads."),
 "C02": dict(
   category="exploration", design="DESIGN.md §4 C02",
   technique="proptest-generated operation histories interpreted on stepped OS threads in a fresh child process, compared with a per-thread-stack + global reference model",
   text="Histories of set_default/with_default(+panic)/set_global_default/emit/get_default/thread end over 4 stepped threads and 4 recording collectors, one fresh process per history because the global default is one-shot; after every emission the recorders must show exactly one delivery to the model's receiver (innermost scope, else global, else none) and none elsewhere; set_global_default must succeed exactly once; get_default/Dispatch::default()/get_current identities are compared too. Half of the cases place the global install strictly inside the history (the position the suite cannot sample).",
   note="Sequential histories only: racing set_global_default/get_default interleavings are not explored (schedule clause of the quantifier is out of reach of this check). Collectors accept everything so only dispatcher selection is judged. Found and fixed F1 (fix: commit in /repo)."),
 "C19": dict(
   category="exploration", design="DESIGN.md §4 C19",
   technique="exhaustive enumeration of the finite operator/conversion/spelling space + proptest-generated near-miss strings and hint histories against an integer-rank oracle",
   text="Complete enumeration of all ordered pairs of the 5 levels and 6 filters (four type combinations, every comparison operator, cmp/min/max/clamp/sort), all conversions incl. the log bridge, all 136 letter-case spellings and digits, and level<=filter vs the LevelFilter layer; generated search over strings that must be rejected and over histories of collectors with hints whose published maximum is read back. Finite part is exhausted, so any operator/conversion/spelling regression is caught; the rejection clause is sampled.",
   note="Trusts: ranks derived via == on the public constants; '+3'/'03'-style numerals tolerated; open finding F12 (empty string parses as ERROR) is reported as KNOWN-FINDING."),
 "C20": dict(
   category="exploration", design="DESIGN.md §4 C20",
   technique="complete day sweep + dense boundary windows + proptest-generated instants, differential against an independent civil-from-days oracle",
   text="Every day 0001-01-01..9999-12-31 at three times of day, every year boundary -1000..11000, every second in windows around epoch/leap/century/400-year boundaries, extremes of the i64 range, plus generated instants over the whole SystemTime range; each printed timestamp is parsed strictly (RFC 3339 shape, 6 fractional digits) and compared with Hinnant's algorithm in i128; ordered output checked on generated lists.",
   note="Trusts the cfg-guarded hook __verif_format_system_time (production path minus SystemTime::now()). Harness models release builds (debug assertions off): at exactly i64::MIN seconds a debug build trips a deliberate debug_assert."),
}

NOT_YET = "check not built yet in this revision of /verif (planned in DESIGN.md §4); no claim is made"

def main():
    checks = []
    for pid in ALL:
        if pid not in CHECKS: continue
        c = CHECKS[pid]
        checks.append({
            "property_id": pid,
            "quick_cmd": f"./check {pid} --tier quick",
            "thorough_cmd": f"./check {pid} --tier thorough",
            "evidence_file": f"/verif/evidence/{pid}.json",
            "replay_cmd_template": f"./check {pid} --replay {{path}}",
            "engine": "vp-engine",
            "level_claimed": {"category": c["category"], "text": c["text"], "design_ref": c["design"]},
            "level_note": c["note"],
            "technique": c["technique"],
        })
    na = [{"property_id": p, "reason": NOT_YET} for p in ALL if p not in CHECKS]
    m = {
        "version": 1,
        "setup_cmd": "./check --build-all",
        "hooks": {
            "guard": "--cfg tokio_rs_tracing_verif",
            "enable": "harness/.cargo/config.toml sets build.rustflags = [\"--cfg\", \"tokio_rs_tracing_verif\"]; ./check builds every check binary from /repo's working tree through path dependencies",
            "baseline_off_cmd": "cd /repo && (cargo nextest run --workspace --no-fail-fast --test-threads 8 --offline || cargo test --workspace --no-fail-fast --offline)",
            "source_commits": HOOK_COMMITS,
            "add_only": True,
        },
        "engines": [{
            "name": "vp-engine", "path": "harness/vp-engine", "serves_properties": sorted(CHECKS),
            "kind_free_text": "proptest TestRunner (fixed seed from VERIF_SEED, no persistence) embedded in one binary per property; cases are operation histories interpreted against the real crates and judged by reference models; fresh OS thread or fresh child process per case; shrunk failures become replay files; ./check shards over the cores and merges evidence"}],
        "checks": checks,
        "notes": "Known findings: /verif/known_findings.jsonl. Sensitivity (mutants caught/missed): mutants/results.json and DESIGN.md.",
        "not_applicable": na,
    }
    json.dump(m, open(os.path.join(VERIF, "MANIFEST.json"), "w"), indent=1)
    print(f"MANIFEST.json: {len(checks)} checks, {len(na)} not claimed")
if __name__ == "__main__":
    main()
