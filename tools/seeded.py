#!/usr/bin/env python3
"""Seeded defects written by independent sub-agents (see DESIGN.md, "Seeded changes").

  tools/seeded.py import  <worktree>/SEEDED/<n> <seed-id> <demo-path-in-tree> -- <demo cmd...>
      copy patch.diff / demo / meta.json to /verif/seeded/<seed-id>/ and record how to run the demo
  tools/seeded.py confirm <seed-id> <worktree> [--tests "<cargo test cmd>"]
      in the scratch worktree: demo passes without the patch, fails with it, and the existing tests
      of the touched crates still pass with it
  tools/seeded.py detect  <seed-id> [--tier quick]
      apply to /repo, run the property's check, expect VIOLATION, undo (git checkout)
  tools/seeded.py detect-all
"""
import json, os, shutil, subprocess, sys, time, re
VERIF = os.path.dirname(os.path.dirname(os.path.abspath(__file__)))
SEEDED = os.path.join(VERIF, "seeded")
ENV = dict(os.environ, CARGO_NET_OFFLINE="true")
KNOWN_BAD = ["value_sets_with_fields_from_other_callsites_are_empty", "ui::async_instrument", "async_instrument"]

def sh(cmd, cwd, env=None, timeout=3600):
    r = subprocess.run(cmd, cwd=cwd, shell=isinstance(cmd, str), env=env or ENV, capture_output=True, text=True, timeout=timeout)
    return r.returncode, r.stdout + r.stderr

def load(sid):
    return json.load(open(os.path.join(SEEDED, sid, "meta.json")))
def save(sid, m):
    json.dump(m, open(os.path.join(SEEDED, sid, "meta.json"), "w"), indent=1, ensure_ascii=False)

def cmd_import(args):
    src, sid, demo_path = args[0], args[1], args[2]
    cmd = " ".join(args[args.index("--") + 1:])
    dst = os.path.join(SEEDED, sid)
    os.makedirs(dst, exist_ok=True)
    for f in os.listdir(src):
        shutil.copy(os.path.join(src, f), os.path.join(dst, f))
    m = load(sid)
    m["demo_path_in_tree"] = demo_path
    m["demo_file"] = os.path.basename(demo_path)
    m["demo_cmd"] = cmd
    save(sid, m)
    print("imported", sid)

def touched_crates(patch):
    return sorted(set(re.findall(r"^diff --git a/([^/]+)/", open(patch).read(), re.M)))

def cmd_confirm(args):
    sid, wt = args[0], args[1]
    m = load(sid)
    d = os.path.join(SEEDED, sid)
    patch = os.path.join(d, "patch.diff")
    demo_dst = os.path.join(wt, m["demo_path_in_tree"])
    res = {}
    sh("git checkout -- . ", wt)
    os.makedirs(os.path.dirname(demo_dst), exist_ok=True)
    shutil.copy(os.path.join(d, m["demo_file"]), demo_dst)
    try:
        rc, out = sh(m["demo_cmd"], wt)
        res["demo_without_patch"] = "pass" if rc == 0 else f"FAIL({rc})"
        rc, out = sh(f"git apply {patch}", wt)
        assert rc == 0, out
        rc, out = sh(m["demo_cmd"], wt)
        res["demo_with_patch"] = "fail" if rc != 0 else "PASS(unexpected)"
        res["demo_with_patch_tail"] = out[-600:]
        crates = touched_crates(patch)
        tests = {}
        # the existing suite is run WITHOUT the demonstration file in the tree
        if os.path.exists(demo_dst):
            os.remove(demo_dst)
        for c in crates:
            rc, out = sh(f"cargo test --offline -p {c} --lib --tests 2>&1", wt)
            failed = sorted(set(re.findall(r"^test (\S+) \.\.\. FAILED", out, re.M)))
            # the demo itself is expected to fail; known-bad baseline tests are ignored
            demo_stem = os.path.splitext(m["demo_file"])[0]
            unexpected = [f for f in failed if not any(k in f for k in KNOWN_BAD)]
            # failures inside the demo test binary do not count
            demo_fail = demo_stem in out and "Running tests/" + demo_stem in out
            if demo_fail:
                # collect failures only from other binaries
                unexpected = []
                cur = None
                for line in out.splitlines():
                    mm = re.search(r"Running (?:unittests )?(\S+)", line)
                    if mm: cur = mm.group(1)
                    mm = re.match(r"test (\S+) \.\.\. FAILED", line)
                    if mm and demo_stem not in (cur or "") and not any(k in mm.group(1) for k in KNOWN_BAD):
                        unexpected.append(f"{cur}:{mm.group(1)}")
            ok = ("error: could not compile" not in out) and not unexpected
            tests[c] = "existing tests pass" if ok else f"PROBLEM: {unexpected[:5]} {out[-400:] if 'could not compile' in out else ''}"
        res["existing_tests_with_patch"] = tests
    finally:
        sh("git checkout -- .", wt)
        if os.path.exists(demo_dst):
            os.remove(demo_dst)
    m["confirmed"] = res
    m["confirmed_at"] = time.strftime("%Y-%m-%d %H:%M")
    save(sid, m)
    print(json.dumps(res, indent=1)[:1500])

def cmd_detect(args):
    sid = args[0]
    tier = args[args.index("--tier") + 1] if "--tier" in args else "quick"
    m = load(sid)
    patch = os.path.join(SEEDED, sid, "patch.diff")
    dirty = subprocess.run(["git", "-C", "/repo", "status", "--porcelain", "--untracked-files=no"], capture_output=True, text=True).stdout.strip()
    if dirty:
        print("refusing: /repo has uncommitted changes"); return 2
    props = m.get("checks", [m["property"]])
    out = {}
    rc, o = sh(f"git -C /repo apply {patch}", VERIF)
    if rc != 0:
        print("patch does not apply:", o); return 2
    try:
        for p in props:
            t0 = time.time()
            r = subprocess.run([os.path.join(VERIF, "check"), p, "--tier", tier], cwd=VERIF, capture_output=True, text=True)
            viol = [l for l in r.stdout.splitlines() if l.startswith("VIOLATION")]
            sig = [l.strip() for l in r.stderr.splitlines() if "violation signature=" in l][:1]
            mm = re.search(r"(\d+) violation\(s\)", r.stderr)
            nviol = int(mm.group(1)) if mm else 0
            # (a shard stops at its first violation: the number of violations is the number of
            # shards, out of 16, that found one - a measure of how much margin the detection has)
            out[p] = dict(exit=r.returncode, caught=bool(r.returncode == 1 and viol), tier=tier, signature=(sig[0][:400] if sig else ""), wall_s=round(time.time() - t0, 1), shards_with_violation=nviol, seed=os.environ.get("VERIF_SEED", "default"))
            print(sid, p, (f"CAUGHT[{nviol}]" if out[p]["caught"] else f"MISSED (exit {r.returncode})"), out[p]["signature"][:200])
    finally:
        subprocess.run("git -C /repo checkout -- .", shell=True, check=True)
    m.setdefault("detection", {}).update(out)
    save(sid, m)

def main():
    a = sys.argv[1:]
    if not a: print(__doc__); return
    if a[0] == "import": cmd_import(a[1:])
    elif a[0] == "confirm": cmd_confirm(a[1:])
    elif a[0] == "detect": return cmd_detect(a[1:])
    elif a[0] == "detect-all":
        for sid in sorted(os.listdir(SEEDED)):
            if os.path.exists(os.path.join(SEEDED, sid, "meta.json")):
                cmd_detect([sid] + a[1:])
if __name__ == "__main__":
    sys.exit(main())
