#!/usr/bin/env python3
"""Sensitivity check: apply each hand-written mutant to /repo's working tree, run the
property's quick check, expect exit 1 + VIOLATION, and revert (git checkout).

  tools/mutants.py [PROP ...] [--only NAME] [--tier quick]

Mutants live in mutants/table.json: [{name, prop, file, find, replace, note, nth?}].
Results are appended to mutants/results.json (kept for DESIGN.md's table).
"""
import json, os, subprocess, sys, time
VERIF = os.path.dirname(os.path.dirname(os.path.abspath(__file__)))
REPO = "/repo"

def main():
    args = sys.argv[1:]
    only = None
    tier = "quick"
    props = []
    i = 0
    while i < len(args):
        if args[i] == "--only": only = args[i+1]; i += 2
        elif args[i] == "--tier": tier = args[i+1]; i += 2
        else: props.append(args[i]); i += 1
    table = json.load(open(os.path.join(VERIF, "mutants/table.json")))
    respath = os.path.join(VERIF, "mutants/results.json")
    results = json.load(open(respath)) if os.path.exists(respath) else {}
    dirty = subprocess.run(["git", "-C", REPO, "status", "--porcelain", "--untracked-files=no"], capture_output=True, text=True).stdout.strip()
    if dirty:
        print("refusing: /repo has uncommitted changes:\n" + dirty); return 2
    for m in table:
        if props and m["prop"] not in props: continue
        if only and m["name"] != only: continue
        path = os.path.join(REPO, m["file"])
        src = open(path).read()
        nth = m.get("nth", 0)
        idx = -1
        for _ in range(nth + 1):
            idx = src.find(m["find"], idx + 1)
            if idx < 0: break
        if idx < 0:
            print(f"{m['name']}: pattern not found in {m['file']}"); results[m["name"]] = dict(prop=m["prop"], outcome="pattern-not-found"); continue
        mutated = src[:idx] + m["replace"] + src[idx+len(m["find"]):]
        try:
            open(path, "w").write(mutated)
            t0 = time.time()
            env = dict(os.environ); env["VERIF_TIER"] = tier
            r = subprocess.run([os.path.join(VERIF, "check"), m["prop"], "--tier", tier], cwd=VERIF, capture_output=True, text=True, env=env)
            viol = [l for l in r.stdout.splitlines() if l.startswith("VIOLATION")]
            sig = [l.strip() for l in r.stderr.splitlines() if "violation signature=" in l][:1]
            outcome = "caught" if (r.returncode == 1 and viol) else ("build-failed" if "BUILD-FAILED" in r.stderr else f"MISSED(exit {r.returncode})")
            print(f"{m['prop']} {m['name']}: {outcome} in {time.time()-t0:.0f}s {sig[0][:200] if sig else ''}")
            results[m["name"]] = dict(prop=m["prop"], file=m["file"], note=m.get("note", ""), outcome=outcome, tier=tier, signature=(sig[0][:300] if sig else ""), wall_s=round(time.time()-t0, 1))
        finally:
            subprocess.run(["git", "-C", REPO, "checkout", "--", m["file"]], check=True)
    json.dump(results, open(respath, "w"), indent=1, sort_keys=True)
    return 0

if __name__ == "__main__":
    sys.exit(main())
