#!/bin/bash
# run every registered quick check on the current tree (refreshes evidence/); prints one line each
cd "$(dirname "$0")/.."
rc=0
for id in $(python3 -c "import json;print(' '.join(c['property_id'] for c in json.load(open('MANIFEST.json'))['checks']))"); do
  out=$(./check $id --tier ${1:-quick} 2>&1); code=$?
  echo "$id exit=$code $(echo "$out" | tail -1)"
  echo "$out" | grep -E "^VIOLATION|inconclusive:" | head -3
  [ $code -ne 0 ] && rc=1
done
exit $rc
